//! Oracles over recorded histories. Everything here is computed from the
//! registration sequence (`SysInfo`) and the event log; nothing re-implements
//! the placement algorithm.

use std::collections::BTreeMap;

use serde::{Deserialize, Serialize};

use crate::plan::{conf, Call, FaultKind, Kind, Scenario, SysInfo};
use crate::res::Cell;
use crate::run::RunOut;
use crate::sys::{Ev, Event};
use crate::util::is_borrow_panic;

#[derive(Clone, Debug, Serialize, Deserialize, PartialEq)]
pub struct Violation {
    pub prop: String,
    pub class: String,
    pub msg: String,
}

fn vio(prop: &str, class: &str, msg: String) -> Violation {
    Violation { prop: prop.into(), class: class.into(), msg }
}

#[derive(Clone, Debug)]
pub struct Occ {
    pub sid: usize,
    pub inst: u64,
    pub enter: u64,
    pub fetched: Option<u64>,
    pub release: Option<u64>,
    pub exit: Option<u64>,
    pub panicked: bool,
    pub task: u32,
    pub worker: bool,
    pub kind: Kind,
    /// end of the window used for isolation: release for systems, exit for batches
    pub wend: u64,
    /// point after which the system has completely ended
    pub end: u64,
}

pub struct History {
    pub occs: Vec<Occ>,
    pub by_inst: BTreeMap<u64, Vec<usize>>,
    /// (batch sid, inner inst, seq of InnerBegin, seq of InnerEnd or MAX)
    pub inner: Vec<(usize, u64, u64, u64)>,
    pub len: u64,
}

pub fn history(ev: &[Event], infos: &[SysInfo]) -> History {
    let mut occs: Vec<Occ> = Vec::new();
    let mut open: Vec<Option<usize>> = vec![None; infos.len()];
    let mut inner: Vec<(usize, u64, u64, u64)> = Vec::new();
    let len = ev.len() as u64;
    for e in ev {
        let sid = e.sid as usize;
        if sid >= infos.len() {
            continue;
        }
        match e.kind {
            Ev::Enter | Ev::TlEnter => {
                occs.push(Occ {
                    sid,
                    inst: e.inst,
                    enter: e.seq,
                    fetched: None,
                    release: None,
                    exit: None,
                    panicked: false,
                    task: e.task,
                    worker: e.worker,
                    kind: infos[sid].kind,
                    wend: u64::MAX,
                    end: u64::MAX,
                });
                open[sid] = Some(occs.len() - 1);
            }
            Ev::Fetched => {
                if let Some(o) = open[sid] {
                    occs[o].fetched = Some(e.seq);
                }
            }
            Ev::Release => {
                if let Some(o) = open[sid] {
                    if occs[o].release.is_none() {
                        occs[o].release = Some(e.seq);
                    }
                }
            }
            Ev::Exit | Ev::ExitPanic | Ev::TlExit => {
                if let Some(o) = open[sid] {
                    occs[o].exit = Some(e.seq);
                    occs[o].panicked = e.kind == Ev::ExitPanic || (e.kind == Ev::TlExit && e.aux == 1);
                }
            }
            Ev::InnerBegin => inner.push((sid, e.aux, e.seq, u64::MAX)),
            Ev::InnerEnd => {
                if let Some(x) = inner.iter_mut().rev().find(|x| x.0 == sid && x.3 == u64::MAX) {
                    x.3 = e.seq;
                }
            }
            _ => {}
        }
    }
    // window ends
    let n = occs.len();
    for i in 0..n {
        let o = occs[i].clone();
        match o.kind {
            Kind::Sys => {
                // a fetch that panicked has a Release but no Exit
                let rel = o.release.or(o.exit).unwrap_or(u64::MAX);
                occs[i].wend = rel;
                occs[i].end = o.exit.or(o.release).unwrap_or(u64::MAX);
            }
            Kind::Tl => {
                occs[i].wend = o.exit.unwrap_or(u64::MAX);
                occs[i].end = occs[i].wend;
            }
            Kind::Batch => {
                if let Some(x) = o.exit {
                    occs[i].wend = x;
                    occs[i].end = x;
                } else if infos[o.sid].multi {
                    // library-driven batch: no hook after the last inner dispatch. Its end is
                    // approximated (from below) by the last event of anything inside it before
                    // its next run.
                    let next_enter = occs[i + 1..].iter().find(|p| p.sid == o.sid).map(|p| p.enter).unwrap_or(u64::MAX);
                    let mut last = o.enter;
                    for e in ev.iter().filter(|e| e.seq > o.enter && e.seq < next_enter) {
                        let s = e.sid as usize;
                        if s < infos.len() && (s == o.sid || is_descendant(infos, s, o.sid)) {
                            last = last.max(e.seq);
                        }
                    }
                    occs[i].wend = last;
                    occs[i].end = last;
                }
            }
        }
    }
    let mut by_inst: BTreeMap<u64, Vec<usize>> = BTreeMap::new();
    for (i, o) in occs.iter().enumerate() {
        by_inst.entry(o.inst).or_default().push(i);
    }
    History { occs, by_inst, inner, len }
}

pub fn is_descendant(infos: &[SysInfo], mut s: usize, anc: usize) -> bool {
    while let Some(p) = infos[s].parent {
        if p == anc {
            return true;
        }
        s = p;
    }
    false
}

fn with_c07(prop: &str, depth: usize, class: &str, msg: String, out: &mut Vec<Violation>) {
    out.push(vio(prop, class, msg.clone()));
    if depth >= 1 {
        out.push(vio("C07", &format!("inner-{}", class), msg));
    }
}

/// C01 / C07: windows of conflicting systems of one dispatch never intersect.
pub fn check_isolation(h: &History, infos: &[SysInfo], out: &mut Vec<Violation>) -> u64 {
    let mut overlapping_pairs = 0u64;
    for (inst, idx) in &h.by_inst {
        let v: Vec<&Occ> = idx.iter().map(|&i| &h.occs[i]).filter(|o| o.kind != Kind::Tl).collect();
        for a in 0..v.len() {
            for b in a + 1..v.len() {
                let (x, y) = (v[a], v[b]);
                if x.sid == y.sid {
                    continue;
                }
                let overlap = x.enter < y.wend && y.enter < x.wend;
                if !overlap {
                    continue;
                }
                overlapping_pairs += 1;
                let (ix, iy) = (&infos[x.sid], &infos[y.sid]);
                if conf(ix.urmask, ix.uwmask, iy.urmask, iy.uwmask) {
                    let batchy = ix.kind == Kind::Batch || iy.kind == Kind::Batch;
                    let msg = format!(
                        "systems {} and {} (dispatch instance {}) have conflicting access (r/w masks {:x}/{:x} vs {:x}/{:x}) and overlapping windows [{},{}] / [{},{}]",
                        x.sid, y.sid, inst, ix.urmask, ix.uwmask, iy.urmask, iy.uwmask, x.enter, x.wend, y.enter, y.wend
                    );
                    if batchy {
                        out.push(vio("C07", "batch-overlap", msg.clone()));
                        // an outer system overlapping a conflicting batch is also a plain isolation failure
                        // only when the batch's inner systems were really in their windows; C01 sees it
                        // through the borrow panic / nested check, not here.
                    } else {
                        with_c07("C01", ix.depth, "window-overlap", msg, out);
                    }
                }
            }
        }
    }
    overlapping_pairs
}

/// C02: exit(dep) < enter(dependent) in every dispatch instance.
pub fn check_deps(h: &History, infos: &[SysInfo], out: &mut Vec<Violation>) {
    for idx in h.by_inst.values() {
        for &bi in idx {
            let b = &h.occs[bi];
            for &a_sid in &infos[b.sid].deps {
                // the dependency's occurrence in the same instance
                let a = idx.iter().map(|&i| &h.occs[i]).find(|o| o.sid == a_sid);
                match a {
                    Some(a) => {
                        if !(a.end < b.enter) {
                            with_c07(
                                "C02",
                                infos[b.sid].depth,
                                "dependent-started-early",
                                format!(
                                    "system {} depends on {} but entered at {} while the dependency ended at {} (entered {})",
                                    b.sid, a_sid, b.enter, a.end, a.enter
                                ),
                                out,
                            );
                        }
                    }
                    None => {} // dependency did not run in this instance: C04's / C14's business
                }
            }
        }
    }
}

/// C03: everything before a barrier ends before anything after it starts.
pub fn check_barriers(h: &History, infos: &[SysInfo], out: &mut Vec<Violation>) {
    for idx in h.by_inst.values() {
        let v: Vec<&Occ> = idx.iter().map(|&i| &h.occs[i]).filter(|o| o.kind != Kind::Tl).collect();
        for a in &v {
            for b in &v {
                if infos[a.sid].epoch < infos[b.sid].epoch && !(a.end < b.enter) {
                    with_c07(
                        "C03",
                        infos[a.sid].depth,
                        "barrier-crossed",
                        format!(
                            "system {} (before barrier #{}) ended at {} but system {} (after it) entered at {}",
                            a.sid, infos[b.sid].epoch, a.end, b.sid, b.enter
                        ),
                        out,
                    );
                }
            }
        }
    }
}

fn eligible(call: Call, k: Kind) -> bool {
    match call {
        Call::Dispatch => true,
        Call::DispatchPar | Call::DispatchSeq => k != Kind::Tl,
        Call::DispatchTl => k == Kind::Tl,
    }
}

/// C04: every registered system exactly once per dispatch instance (top level and inner).
pub fn check_counts(sc: &Scenario, h: &History, infos: &[SysInfo], ro: &RunOut, out: &mut Vec<Violation>) {
    // top-level calls
    let mut prev: Vec<u64> = vec![0; infos.len()];
    let mut after_panic = false;
    let armed = |ci: usize| sc.faults.iter().any(|f| f.call == ci && matches!(f.kind, FaultKind::PanicBefore | FaultKind::PanicMid | FaultKind::PanicAfter | FaultKind::Undeclared));
    for (ci, c) in ro.calls.iter().enumerate() {
        if c.panic.is_some() && armed(ci) {
            prev = c.runs_after.clone();
            after_panic = true;
            continue;
        }
        // (a call that panicked although nothing was injected into it is judged like any other:
        // what it did not run, it did not run)
        // systems of a dispatcher registered as a thread-local system run once whenever the
        // thread-local phase runs
        for i in infos.iter().filter(|i| i.parent.map(|p| infos[p].container).unwrap_or(false)) {
            let delta = c.runs_after[i.sid] - prev[i.sid];
            let want = eligible(c.call, Kind::Tl) as u64;
            if delta != want {
                let msg = format!("call #{} ({:?}): system {} ({:?}) of a dispatcher registered as a thread-local system ran {} time(s), expected {}", ci, c.call, i.sid, i.kind, delta, want);
                out.push(vio("C04", if delta < want { "skipped" } else { "ran-twice" }, msg.clone()));
                if after_panic {
                    out.push(vio("C14", "redispatch-incomplete", format!("after a caught panic in an earlier dispatch: {}", msg)));
                }
                out.push(vio("C12", "tl-not-run", msg));
            }
        }
        for i in infos.iter().filter(|i| i.parent.is_none() && !i.container) {
            let delta = c.runs_after[i.sid] - prev[i.sid];
            let want = eligible(c.call, i.kind) as u64;
            if delta != want {
                let msg = format!("call #{} ({:?}): top-level system {} ({:?}) ran {} time(s), expected {}", ci, c.call, i.sid, i.kind, delta, want);
                out.push(vio("C04", if delta < want { "skipped" } else { "ran-twice" }, msg.clone()));
                if after_panic {
                    out.push(vio("C14", "redispatch-incomplete", format!("after a caught panic in an earlier dispatch: {}", msg)));
                }
                if i.kind == Kind::Tl && delta < want {
                    out.push(vio("C12", "tl-not-run", msg));
                }
            }
        }
        prev = c.runs_after.clone();
    }
    let _ = sc;
    // inner dispatches: per batch occurrence, children run exactly once per inner dispatch
    for (bi, b) in h.occs.iter().enumerate().filter(|(_, o)| o.kind == Kind::Batch) {
        let bi_info = &infos[b.sid];
        if b.panicked || b.exit.is_none() && !bi_info.multi {
            continue;
        }
        // was the call that contains this occurrence one in which a panic was injected?
        if ro.calls.iter().enumerate().any(|(ci, c)| c.panic.is_some() && armed(ci) && c.first_seq <= b.enter && b.enter < c.last_seq) {
            continue;
        }
        let _ = bi;
        let children: Vec<&SysInfo> = infos.iter().filter(|i| i.parent == Some(b.sid)).collect();
        // inner instances of this occurrence
        let insts: Vec<u64> = if bi_info.multi {
            // base*64 + k
            let base = h
                .occs
                .iter()
                .filter(|o| infos[o.sid].parent == Some(b.sid) && o.enter > b.enter && o.enter <= b.end)
                .map(|o| crate::sys::inst_multi_base(o.inst))
                .next();
            match base {
                Some(base) => (1..=bi_info.times as u64).map(|k| crate::sys::inst_multi(base, k)).collect(),
                None => vec![],
            }
        } else {
            h.inner.iter().filter(|x| x.0 == b.sid && x.2 > b.enter && x.2 < b.end).map(|x| x.1).collect()
        };
        if insts.len() != bi_info.times as usize && !(bi_info.multi && children.is_empty()) {
            if !bi_info.multi {
                out.push(vio(
                    "C04",
                    "inner-dispatch-count",
                    format!("batch {} performed {} inner dispatches, its controller asked for {}", b.sid, insts.len(), bi_info.times),
                ));
            } else if !children.is_empty() {
                out.push(vio(
                    "C04",
                    "inner-skipped",
                    format!("multi-dispatch batch {} planned {} inner dispatches, none of its systems ran", b.sid, bi_info.times),
                ));
            }
        }
        for ch in &children {
            let total = h.occs.iter().filter(|o| o.sid == ch.sid && o.enter > b.enter && o.enter <= b.end).count();
            if total != bi_info.times as usize {
                if ch.kind == Kind::Tl && total < bi_info.times as usize {
                    out.push(vio(
                        "C12",
                        "tl-not-run",
                        format!("thread-local system {} inside batch {} ran {} time(s) during one run of the batch, the controller dispatched {} time(s)", ch.sid, b.sid, total, bi_info.times),
                    ));
                }
                if ro.calls.iter().any(|c| c.panic.is_some() && c.last_seq <= b.enter) {
                    out.push(vio(
                        "C14",
                        "redispatch-incomplete",
                        format!("after a caught panic in an earlier dispatch: system {} inside batch {} ran {} time(s), the controller dispatched {} time(s)", ch.sid, b.sid, total, bi_info.times),
                    ));
                }
                out.push(vio(
                    "C04",
                    if total < bi_info.times as usize { "inner-skipped" } else { "inner-ran-twice" },
                    format!(
                        "system {} inside batch {} ran {} time(s) during one run of the batch, the controller dispatched {} time(s)",
                        ch.sid, b.sid, total, bi_info.times
                    ),
                ));
                out.push(vio("C07", "inner-count", format!("system {} inside batch {}: {} runs for {} inner dispatches", ch.sid, b.sid, total, bi_info.times)));
                continue;
            }
            for &inst in &insts {
                let n = h.occs.iter().filter(|o| o.sid == ch.sid && o.inst == inst).count();
                if n != 1 {
                    out.push(vio(
                        "C04",
                        if n == 0 { "inner-skipped" } else { "inner-ran-twice" },
                        format!("system {} inside batch {} ran {} time(s) in inner dispatch instance {}", ch.sid, b.sid, n, inst),
                    ));
                }
            }
        }
    }
}

/// C12: thread-local systems on the caller, after everything else, in order, one at a time.
/// A thread-local system inside a batch that runs on another task than the outer caller is
/// reported with its own class (the known finding KF1 is matched on it).
pub fn check_tl(h: &History, infos: &[SysInfo], ev: &[Event], out: &mut Vec<Violation>) {
    // (seq, task, worker) of every top-level call
    let calls: Vec<(u64, u32, bool)> = ev.iter().filter(|e| e.kind == Ev::CallBegin).map(|e| (e.seq, e.task, e.worker)).collect();
    let caller_of = |seq: u64| calls.iter().rev().find(|c| c.0 < seq).map(|c| (c.1, c.2)).unwrap_or((0, false));
    // a dispatcher registered as a thread-local system: its systems belong to the thread-local
    // phase of the outer dispatch
    for o in h.occs.iter().filter(|o| infos[o.sid].parent.map(|p| infos[p].container).unwrap_or(false)) {
        let top_inst = crate::sys::inst_container_top(o.inst);
        for x in h.occs.iter().filter(|x| x.inst == top_inst && infos[x.sid].parent.is_none() && x.kind != Kind::Tl) {
            if !(x.end < o.enter) {
                out.push(vio(
                    "C12",
                    "tl-started-early",
                    format!("system {} of a dispatcher registered as a thread-local system entered at {} before ordinary system {} of the same dispatch had ended ({})", o.sid, o.enter, x.sid, x.end),
                ));
            }
        }
    }
    for idx in h.by_inst.values() {
        let tls: Vec<&Occ> = idx.iter().map(|&i| &h.occs[i]).filter(|o| o.kind == Kind::Tl).collect();
        if tls.is_empty() {
            continue;
        }
        let others: Vec<&Occ> = idx.iter().map(|&i| &h.occs[i]).filter(|o| o.kind != Kind::Tl).collect();
        for t in &tls {
            let depth = infos[t.sid].depth;
            let (caller_task, caller_is_worker) = caller_of(t.enter);
            if t.task != caller_task || (t.worker && !caller_is_worker) {
                if depth >= 1 {
                    out.push(vio(
                        "C12",
                        "tl-in-batch-on-worker",
                        format!(
                            "thread-local system {} registered in a builder given to add_batch (batch depth {}) executed by task {} (pool worker: {}), the caller of dispatch is task {}",
                            t.sid, depth, t.task, t.worker, caller_task
                        ),
                    ));
                } else {
                    out.push(vio(
                        "C12",
                        "tl-wrong-thread",
                        format!("top-level thread-local system {} executed by task {} (pool worker: {}), the caller of dispatch is task {}", t.sid, t.task, t.worker, caller_task),
                    ));
                }
            }
            for o in &others {
                if !(o.end < t.enter) {
                    with_c07(
                        "C12",
                        depth,
                        "tl-started-early",
                        format!("thread-local system {} entered at {} before system {} of the same dispatch had ended ({})", t.sid, t.enter, o.sid, o.end),
                        out,
                    );
                }
            }
        }
        for w in tls.windows(2) {
            if w[0].sid > w[1].sid {
                out.push(vio("C12", "tl-order", format!("thread-local systems ran out of registration order: {} before {}", w[0].sid, w[1].sid)));
            }
            if !(w[0].end < w[1].enter) {
                out.push(vio("C12", "tl-overlap", format!("thread-local systems {} and {} overlap", w[0].sid, w[1].sid)));
            }
        }
    }
}

/// C14: panic containment. `fired[i]` says whether fault i of the scenario was delivered.
pub fn check_panics(sc: &Scenario, h: &History, infos: &[SysInfo], ro: &RunOut, fired: &[bool], out: &mut Vec<Violation>) {
    let is_panic = |k: FaultKind| matches!(k, FaultKind::PanicBefore | FaultKind::PanicMid | FaultKind::PanicAfter);
    for (ci, c) in ro.calls.iter().enumerate() {
        let armed: Vec<usize> = sc.faults.iter().enumerate().filter(|(_, f)| f.call == ci && is_panic(f.kind)).map(|(i, _)| i).collect();
        let fired_here: Vec<usize> = armed.iter().copied().filter(|&i| fired.get(i).copied().unwrap_or(false)).collect();
        match (&c.panic, fired_here.is_empty()) {
            (None, true) => {}
            (None, false) => out.push(vio(
                "C14",
                "panic-swallowed",
                format!("call #{} ({:?}) returned normally although system {} panicked during it", ci, c.call, sc.faults[fired_here[0]].sid),
            )),
            (Some(p), false) => {
                let ok = fired_here.iter().any(|&i| p.contains(&format!("HPANIC sid={} call={} ", sc.faults[i].sid, ci)));
                if !ok {
                    out.push(vio(
                        "C14",
                        "wrong-payload",
                        format!("call #{} panicked with {:?}, which is not the payload of a system that panicked ({:?})", ci, p.lines().next().unwrap_or(""), fired_here.iter().map(|&i| sc.faults[i].sid).collect::<Vec<_>>()),
                    ));
                }
            }
            (Some(p), true) => {
                // a panic nobody injected in this call (also reported as C01 borrow / C04
                // dispatch-panicked): after a caught panic of an earlier call the dispatcher
                // must behave as if nothing had happened
                let earlier = sc.faults.iter().enumerate().any(|(i, f)| f.call < ci && is_panic(f.kind) && fired.get(i).copied().unwrap_or(false));
                if earlier && !crate::util::is_borrow_panic(p) {
                    out.push(vio(
                        "C14",
                        "redispatch-panicked",
                        format!("call #{} ({:?}) panicked ({:?}) although no system panicked during it; a panic of an earlier call had been caught", ci, c.call, p.lines().next().unwrap_or("")),
                    ));
                }
            }
        }
        // run counters: nothing runs more than once per dispatch (top level)
        let prev: Vec<u64> = if ci == 0 { vec![0; infos.len()] } else { ro.calls[ci - 1].runs_after.clone() };
        for i in infos.iter().filter(|i| i.parent.is_none() || i.parent.map(|p| infos[p].container).unwrap_or(false)) {
            let d = c.runs_after[i.sid] - prev[i.sid];
            if d > 1 {
                out.push(vio("C14", "ran-twice", format!("call #{}: system {} ran {} times", ci, i.sid, d)));
            }
        }
    }
    // nobody who (transitively) depends on a panicking system enters in that dispatch instance
    let mut tdeps: Vec<Vec<usize>> = vec![Vec::new(); infos.len()];
    for i in infos.iter() {
        let mut stack: Vec<usize> = i.deps.clone();
        while let Some(d) = stack.pop() {
            if !tdeps[i.sid].contains(&d) {
                tdeps[i.sid].push(d);
                stack.extend(infos[d].deps.iter().copied());
            }
        }
    }
    for idx in h.by_inst.values() {
        let occs: Vec<&Occ> = idx.iter().map(|&i| &h.occs[i]).collect();
        for p in occs.iter().filter(|o| o.panicked || panicked_inside(h, infos, o)) {
            for b in occs.iter() {
                if tdeps[b.sid].contains(&p.sid) {
                    with_c07(
                        "C14",
                        infos[b.sid].depth,
                        "dependent-of-panicked-ran",
                        format!("system {} depends on system {}, which panicked in this dispatch, and still entered (at {})", b.sid, p.sid, b.enter),
                        out,
                    );
                }
            }
        }
    }
}

/// A library-driven batch has no exit hook: it panicked if something inside it did.
fn panicked_inside(h: &History, infos: &[SysInfo], b: &Occ) -> bool {
    if b.kind != Kind::Batch || b.exit.is_some() {
        return false;
    }
    h.occs.iter().any(|o| o.panicked && o.enter > b.enter && o.enter <= b.end && is_descendant(infos, o.sid, b.sid))
}

/// Borrow panics / torn canaries in runs where no client fault was injected: C01.
pub fn check_borrow_noise(sc: &Scenario, ro: &RunOut, out: &mut Vec<Violation>) {
    if sc.faults.iter().any(|f| f.kind == FaultKind::Undeclared) {
        return;
    }
    for (ci, c) in ro.calls.iter().enumerate() {
        if let Some(p) = &c.panic {
            if is_borrow_panic(p) {
                out.push(vio("C01", "borrow-panic", format!("call #{} panicked with a borrow conflict: {}", ci, p.lines().next().unwrap_or(""))));
            }
        }
    }
    for e in &ro.escaped {
        if is_borrow_panic(e) {
            out.push(vio("C01", "borrow-panic", format!("escaped borrow conflict: {}", e)));
        }
    }
    if ro.canary_torn > 0 {
        out.push(vio("C01", "canary", format!("{} reads saw a half-written value", ro.canary_torn)));
    }
}

/// Cells after each call: nothing may stay borrowed (C14 when the call panicked, C08 otherwise).
pub fn check_cells_free(ro: &RunOut, out: &mut Vec<Violation>) {
    for (ci, c) in ro.calls.iter().enumerate() {
        for (l, cell) in c.cells_after.iter().enumerate() {
            if matches!(cell, Cell::Shared | Cell::Excl) {
                out.push(vio(
                    "C14",
                    "leaked-borrow",
                    format!("after call #{} (panic: {}) logical resource {} is still borrowed ({:?})", ci, c.panic.is_some(), l, cell),
                ));
            }
        }
        if c.active_after != 0 {
            out.push(vio("C14", "returned-while-running", format!("call #{} returned with {} systems still inside run", ci, c.active_after)));
        }
    }
}
