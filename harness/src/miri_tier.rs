//! Miri tier (thorough only): the world / meta-table workloads as plain Rust
//! under Miri, whose own seeded scheduler decides instruction-level
//! interleavings of the real threads and which reports data races and undefined
//! behaviour (the unchecked downcasts and vtable re-attachment that C09 / C17
//! worry about). `cargo +nightly miri run -- miri <PROP> <seed> <n>`;
//! `-Zmiri-many-seeds` runs this whole function once per Miri seed.

use std::sync::atomic::{AtomicU64, Ordering};
use std::sync::Arc;

use shred::{MetaTable, World};

use crate::dfamily::Stats;
use crate::res::*;
use crate::run::StratSpec;

fn report(what: &str, vs: &[crate::oracle::Violation]) -> bool {
    for v in vs {
        println!("MIRI-TIER {} {} {}: {}", what, v.prop, v.class, v.msg);
    }
    !vs.is_empty()
}

/// Real threads, no baton: readers and writers that retry on refusal, canary checks, meta
/// iteration. The reference model cannot be exact here (operations are not atomic); what is
/// checked is what must hold under every interleaving: no torn read, no aliasing, no UB.
fn concurrent_stress(seed: u64) -> bool {
    let mut w = World::empty();
    w.insert(R0::default());
    w.insert(R1::default());
    w.insert_by_id(shred::ResourceId::new_with_dynamic_id::<R2>(3), R2::default());
    let mut t: MetaTable<dyn HObj> = MetaTable::new();
    t.register::<R0>();
    t.register::<R1>();
    t.register::<R0>();
    let w = Arc::new(w);
    let t = Arc::new(t);
    let torn = Arc::new(AtomicU64::new(0));
    let granted = Arc::new(AtomicU64::new(0));
    let mut hs = Vec::new();
    for k in 0..3u64 {
        let (w, t, torn, granted) = (w.clone(), t.clone(), torn.clone(), granted.clone());
        hs.push(std::thread::spawn(move || {
            for i in 0..6u64 {
                let r = std::panic::catch_unwind(std::panic::AssertUnwindSafe(|| match (k + i + seed) % 5 {
                    0 => {
                        let mut g = w.fetch_mut::<R0>();
                        g.core.ca = g.core.ca.wrapping_add(1);
                        std::thread::yield_now();
                        g.core.v = k * 100 + i;
                        g.core.cb = g.core.ca;
                    }
                    1 => {
                        let g = w.fetch::<R0>();
                        if g.core.ca != g.core.cb {
                            torn.fetch_add(1, Ordering::SeqCst);
                        }
                        let g2 = g.clone();
                        drop(g);
                        if g2.core.ca != g2.core.cb {
                            torn.fetch_add(1, Ordering::SeqCst);
                        }
                    }
                    2 => {
                        for o in t.iter(&w) {
                            let c = o.hcore();
                            if c.ca != c.cb {
                                torn.fetch_add(1, Ordering::SeqCst);
                            }
                        }
                    }
                    3 => {
                        for mut o in t.iter_mut(&w) {
                            let c = o.hcore_mut();
                            c.ca = c.ca.wrapping_add(1);
                            c.cb = c.ca;
                        }
                    }
                    _ => {
                        let id = shred::ResourceId::new_with_dynamic_id::<R2>(3);
                        if let Some(mut g) = w.try_fetch_mut_by_id::<R2>(id) {
                            g.core.v += 1;
                        }
                    }
                }));
                if r.is_ok() {
                    granted.fetch_add(1, Ordering::SeqCst);
                }
            }
        }));
    }
    for h in hs {
        let _ = h.join();
    }
    let bad = torn.load(Ordering::SeqCst);
    if bad > 0 {
        println!("MIRI-TIER C08 torn-read: {} reads saw a half-written value", bad);
    }
    // everything released
    let all_free = [probe_cell(&w, RKey { ty: 0, dynid: 0 }), probe_cell(&w, RKey { ty: 1, dynid: 0 }), probe_cell(&w, RKey { ty: 2, dynid: 3 })].iter().all(|c| *c == Cell::Free);
    if !all_free {
        println!("MIRI-TIER C08 leaked-borrow: a cell is still borrowed after all threads ended");
    }
    bad > 0 || !all_free
}

pub fn cmd_miri(prop: &str, seed: u64, n: u64) {
    crate::util::quiet_panics();
    let mut st = Stats::default();
    let mut bad = false;
    for i in 0..n {
        let s = seed.wrapping_add(i);
        match prop {
            "C09" => {
                let found = crate::w9::explore(s, &mut st);
                for r in &found {
                    println!("MIRI-TIER C09 {}: {}", r.class, r.msg);
                }
                bad |= !found.is_empty();
            }
            "C08" | "C17" => {
                // exact model: one client task (no baton needed), every operation kind
                let mut sc = crate::w8::gen(s, prop);
                sc.ntasks = 1;
                let o = crate::w8::run_scen(&sc, &StratSpec::NoPreempt, s, None);
                bad |= report(prop, &o.violations.into_iter().filter(|v| v.prop == prop).collect::<Vec<_>>());
                if prop == "C08" {
                    bad |= concurrent_stress(s);
                }
            }
            p if matches!(crate::driver::family_of(p), "D" | "A") => {
                // dispatcher scenarios on real threads (the stand-in pool in pass-through mode:
                // one OS thread per job, blocking = yield loops): Miri's scheduler decides the
                // interleaving at basic-block granularity inside shred's own code too, its
                // data-race detector and aliasing model are the extra oracles next to the
                // history oracles of the family
                detsim::PASSTHROUGH.store(true, Ordering::SeqCst);
                crate::driver::MIRI_PLANS.store(true, Ordering::SeqCst);
                let kfs = crate::driver::known_findings();
                let t0 = std::time::Instant::now();
                let found = match std::panic::catch_unwind(std::panic::AssertUnwindSafe(|| crate::dfamily::explore(p, s, false, &mut st))) {
                    Ok(f) => f,
                    Err(e) => {
                        // a panic of the harness itself in pass-through mode is not a verdict on
                        // the tree: the scenario is skipped and said so
                        println!("MIRI-TIER {} skipped: scenario seed {} ended with a harness panic: {}", p, s, crate::util::payload_string(&e).lines().next().unwrap_or(""));
                        Vec::new()
                    }
                };
                if std::env::var("VERIF_MIRI_TIMES").is_ok() {
                    println!("MIRI-TIME seed {} explore {:?}", s, t0.elapsed());
                }
                for r in &found {
                    if r.property != p {
                        continue;
                    }
                    if r.scenario.get("asyncd").and_then(|v| v.as_bool()) == Some(true) {
                        // without the baton the caller-side oracles of the async family are not
                        // atomic with respect to the background job: those scenarios run here
                        // for Miri's own checks (data races, aliasing) only
                        continue;
                    }
                    if crate::driver::match_known(&kfs, &r.property, &r.class, &r.msg).is_some() {
                        println!("MIRI-TIER {} known-finding {}", p, r.class);
                        continue;
                    }
                    println!("MIRI-TIER {} {}: {}", p, r.class, r.msg);
                    bad = true;
                }
            }
            _ => {}
        }
    }
    if matches!(crate::driver::family_of(prop), "D" | "A") {
        println!("MIRI-TIER {} stats: scenarios={} runs={} overlapping_pairs={}", prop, st.scenarios, st.runs, st.overlap_pairs);
    }
    println!("MIRI-TIER {} done: seeds {}..{} violations={}", prop, seed, seed.wrapping_add(n), bad);
    if bad {
        std::process::exit(1);
    }
}
