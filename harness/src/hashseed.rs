//! The simulator owns the hash keys: ahash's `RandomSource` seam is pointed at
//! a stream derived from the scenario (`set` before building anything).

use std::sync::atomic::{AtomicU64, Ordering};
use std::sync::Once;

static SEED: AtomicU64 = AtomicU64::new(0x1234_5678);
static COUNTER: AtomicU64 = AtomicU64::new(0);
static INIT: Once = Once::new();
pub static INSTALLED: AtomicU64 = AtomicU64::new(0);
pub static DRAWS: AtomicU64 = AtomicU64::new(0);

struct Src;
impl ahash::random_state::RandomSource for Src {
    fn gen_hasher_seed(&self) -> usize {
        DRAWS.fetch_add(1, Ordering::Relaxed);
        let c = COUNTER.fetch_add(1, Ordering::SeqCst);
        let mut x = SEED.load(Ordering::SeqCst) ^ c.wrapping_mul(0x9E37_79B9_7F4A_7C15);
        x ^= x >> 31;
        x = x.wrapping_mul(0xD6E8_FEB8_6659_FD93);
        x ^= x >> 29;
        x as usize
    }
}

pub fn install() {
    INIT.call_once(|| {
        if ahash::random_state::set_random_source(Src).is_ok() {
            INSTALLED.store(1, Ordering::SeqCst);
        }
    });
}

pub fn set(seed: u64) {
    install();
    SEED.store(seed, Ordering::SeqCst);
    COUNTER.store(0, Ordering::SeqCst);
}
