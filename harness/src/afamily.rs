//! Async-dispatcher scenarios (engine S): the caller is a simulated task that
//! issues dispatch / running / wait / wait_without_tl / world / world_mut /
//! setup at scheduler-chosen instants while background systems are held or
//! released by the same scheduler. Blocking accessors execute the real
//! `mpsc::recv` through detsim's detach protocol.

use std::sync::atomic::{AtomicBool, AtomicI64, AtomicU64, Ordering};
use std::sync::Arc;

use detsim::Rng;
use serde::{Deserialize, Serialize};
use shred::{AsyncDispatcher, World};

use crate::build::{build, make_builder, reset_states, restore_world, snapshot_world, BuildOpts, Layout};
use crate::oracle::*;
use crate::plan::*;
use crate::res::{Cell, Core};
use crate::run::{interleaving_digest, log_digest, make_strategy, probe_all, RunOut, StratSpec, MAX_STEPS};
use crate::sys::*;

pub struct BuiltAsync {
    pub ctx: Arc<Ctx>,
    pub ad: Option<AsyncDispatcher<'static, World>>,
    pub layout: Layout,
    pub snapshot: Vec<Option<Core>>,
    pub shape: (Vec<Vec<usize>>, usize),
    /// a background job panicked: the channel is dead, the dispatcher must not be touched again
    pub broken: bool,
}

pub fn build_async(sc: &Scenario) -> BuiltAsync {
    // the executed layout (only used to steer strategies) comes from a synchronous twin
    let twin = build(sc, &BuildOpts::default());
    let layout = twin.layout.clone();
    crate::dfamily::eval_dispose(twin);
    crate::hashseed::set(sc.hash_seed);
    rayon::set_machine_size(sc.pool.machine);
    let ctx = Ctx::new(infos(&sc.regs), sc.resmap.clone());
    ctx.fine.store(sc.fine_points, Ordering::SeqCst);
    let mut world = World::empty();
    for (l, k) in sc.resmap.iter().enumerate() {
        if sc.present[l] {
            (k.vt().insert)(&mut world, k.dynid, Core { v: 7_000_000 + l as u64 * 13, ca: 5, cb: 5 });
        }
    }
    let mut sid = 0;
    let mut b = make_builder(&ctx, &sc.regs, &mut sid);
    if let Some(n) = sc.pool.supplied {
        let p = Arc::new(rayon::ThreadPoolBuilder::new().num_threads(n).build().expect("pool"));
        b.add_pool(p);
    }
    let mut ad = b.build_async(world);
    ad.setup();
    let shape = ad.verif_shape();
    reset_keep_setup(&ctx);
    let snapshot = snapshot_world(&ctx, ad.world_mut());
    BuiltAsync { ctx, ad: Some(ad), layout, snapshot, shape, broken: false }
}

fn reset_keep_setup(ctx: &Ctx) {
    let setups: Vec<u64> = ctx.states.iter().map(|s| s.setup.load(Ordering::SeqCst)).collect();
    reset_states(ctx);
    for (s, v) in ctx.states.iter().zip(setups) {
        s.setup.store(v, Ordering::SeqCst);
    }
}

/// What was observed at the instant an accessor came back.
#[derive(Clone, Debug, Serialize, Deserialize)]
pub struct AObs {
    pub op: AOp,
    pub begin_seq: u64,
    pub end_seq: u64,
    pub result: Option<bool>,
    /// systems inside enter..exit at the instant of return
    pub active: i64,
    /// sum of the run counters of the ordinary top-level systems at that instant
    pub runs: u64,
    /// number of dispatch operations issued before this one returned
    pub dispatched: u64,
    /// background jobs that had finished when the operation was *issued*
    pub finished_at_issue: u64,
    pub finished_at_return: u64,
    /// state word of every system at the instant of return (empty unless C05 compares)
    pub states: Vec<u64>,
}

#[derive(Default)]
struct Snap {
    set: AtomicBool,
    active: AtomicI64,
    runs: AtomicU64,
    finished: AtomicU64,
    /// the systems' state words at that instant (C05 comparison only)
    states: std::sync::Mutex<Vec<u64>>,
}

pub struct AsyncOut {
    pub ro: RunOut,
    pub obs: Vec<AObs>,
    pub cells_end: Vec<Cell>,
    pub setups: Vec<u64>,
    pub runs: Vec<u64>,
}

/// Scheduler point at the hand-over instants of the async dispatcher (hook in /repo): the job
/// has run its last stage but not yet sent the state back; the caller has taken the state back
/// but not yet spawned the next job.
fn handover_point(_what: &'static str) {
    detsim::yield_with_info(PH_HANDOVER);
}

pub fn run_async(b: &mut BuiltAsync, sc: &Scenario, spec: &StratSpec, seed: u64, replay: Option<Vec<u32>>) -> AsyncOut {
    shred::verif_set_point(Some(handover_point));
    let ctx = b.ctx.clone();
    {
        let ad = b.ad.as_mut().unwrap();
        restore_world(&ctx, ad.world_mut(), &b.snapshot);
    }
    reset_keep_setup(&ctx);
    // faults: rendezvous; a panic inside a background job (a pool without a panic handler would
    // abort the process: the stand-in pool behaves like one that has a handler); a panic inside
    // a system's setup during a Setup operation
    ctx.setup_panic_sid.store(usize::MAX, Ordering::SeqCst);
    {
        let mut d = ctx.directives.lock().unwrap();
        for f in &sc.faults {
            if f.sid < d.len() && matches!(f.kind, FaultKind::Rendezvous | FaultKind::PanicBefore | FaultKind::PanicMid | FaultKind::PanicAfter) {
                d[f.sid].push(Directive { call: f.call, kind: f.kind, arg: f.arg });
            }
        }
        let ngroups = sc.faults.iter().filter(|f| f.kind == FaultKind::Rendezvous).map(|f| f.arg as usize + 1).max().unwrap_or(0);
        let mut rdv = ctx.rdv.lock().unwrap();
        for g in 0..ngroups {
            let need = sc.faults.iter().filter(|f| f.kind == FaultKind::Rendezvous && f.arg as usize == g).count();
            rdv.push(Arc::new(Rendezvous { need: std::sync::atomic::AtomicUsize::new(need), arrived: Arc::new(Default::default()) }));
        }
    }
    rayon::stats::reset();
    ctx.dispatching.store(true, Ordering::SeqCst);
    let setups0: Vec<u64> = ctx.states.iter().map(|s| s.setup.load(Ordering::SeqCst)).collect();
    let strategy = make_strategy(spec, seed, &ctx, &b.layout);
    let cfg = detsim::Config { seed, strategy, replay, max_steps: MAX_STEPS };
    let ord: Vec<usize> = ctx.infos.iter().filter(|i| i.parent.is_none() && i.kind != Kind::Tl).map(|i| i.sid).collect();
    let mut obs: Vec<AObs> = Vec::new();
    let ad = b.ad.as_mut().unwrap();
    let report = detsim::run(cfg, || {
        detsim::set_info(PH_CALLER);
        for (oi, op) in sc.aops.iter().enumerate() {
            detsim::yield_with_info(PH_CALLER);
            let begin_seq = ctx.events.lock().unwrap().len() as u64;
            ctx.emit(Ev::CallBegin, usize::MAX, oi as u64);
            let dispatched_before = ctx.async_dispatched.load(Ordering::SeqCst);
            let finished_at_issue = rayon::stats::SPAWN_FINISHED.load(Ordering::SeqCst);
            let snap = Arc::new(Snap::default());
            let mk_at_return = |new_inst: Option<u64>| {
                let snap = snap.clone();
                let ctx = ctx.clone();
                let ord = ord.clone();
                move || {
                    // only atomics are touched here (the baton is not held)
                    snap.active.store(ctx.active.load(Ordering::SeqCst), Ordering::SeqCst);
                    snap.runs.store(ord.iter().map(|&s| ctx.states[s].run.load(Ordering::SeqCst)).sum(), Ordering::SeqCst);
                    snap.finished.store(rayon::stats::SPAWN_FINISHED.load(Ordering::SeqCst), Ordering::SeqCst);
                    if COMPARE_WITH_SEQ.load(Ordering::Relaxed) {
                        *snap.states.lock().unwrap() = ctx.states.iter().map(|s| s.state.load(Ordering::SeqCst)).collect();
                    }
                    snap.set.store(true, Ordering::SeqCst);
                    if let Some(i) = new_inst {
                        // a new dispatch begins: only now do its instance number and its
                        // directives become current (the previous job has handed back)
                        ctx.cur_call.store(dispatched_before as usize, Ordering::SeqCst);
                        ctx.top_inst.store(i, Ordering::SeqCst);
                        for s in ctx.infos.iter().filter(|i| i.parent.is_none()) {
                            ctx.states[s.sid].occ.store(0, Ordering::SeqCst);
                        }
                    }
                }
            };
            // the simulator's model of when the blocking call can come back: every background
            // job handed to the pool so far has returned
            let cond = move || rayon::stats::SPAWN_FINISHED.load(Ordering::SeqCst) >= dispatched_before;
            let mut result = None;
            match op {
                AOp::Dispatch => {
                    let inst = ctx.next_inst.fetch_add(1, Ordering::SeqCst);
                    detsim::detached("async-dispatch", cond, mk_at_return(Some(inst)), || ad.dispatch());
                    ctx.async_dispatched.fetch_add(1, Ordering::SeqCst);
                }
                AOp::Running => {
                    (mk_at_return(None))();
                    result = Some(ad.running());
                }
                AOp::Wait => detsim::detached("async-wait", cond, mk_at_return(None), || ad.wait()),
                AOp::WaitNoTl => detsim::detached("async-wait-without-tl", cond, mk_at_return(None), || ad.wait_without_tl()),
                AOp::World => detsim::detached("async-world", cond, mk_at_return(None), || {
                    let _ = ad.world();
                }),
                AOp::WorldMut => detsim::detached("async-world-mut", cond, mk_at_return(None), || {
                    let _ = ad.world_mut();
                }),
                AOp::Setup => {
                    let nth = sc.aops[..oi].iter().filter(|o| **o == AOp::Setup).count();
                    let armed = sc.faults.iter().find(|f| f.kind == FaultKind::SetupPanic && f.call == nth).map(|f| f.sid);
                    if let Some(sid) = armed {
                        ctx.setup_panic_sid.store(sid, Ordering::SeqCst);
                    }
                    let r = std::panic::catch_unwind(std::panic::AssertUnwindSafe(|| detsim::detached("async-setup", cond, mk_at_return(None), || ad.setup())));
                    ctx.setup_panic_sid.store(usize::MAX, Ordering::SeqCst);
                    if let Err(p) = r {
                        if armed.is_none() || !crate::util::payload_string(&p).contains("HPANIC") {
                            std::panic::resume_unwind(p);
                        }
                        // the injected panic: caught, the dispatcher is used on
                    }
                }
            }
            ctx.emit(Ev::CallEnd, usize::MAX, oi as u64);
            let end_seq = ctx.events.lock().unwrap().len() as u64;
            obs.push(AObs {
                op: *op,
                begin_seq,
                end_seq,
                result,
                active: snap.active.load(Ordering::SeqCst),
                runs: snap.runs.load(Ordering::SeqCst),
                dispatched: dispatched_before,
                finished_at_issue,
                finished_at_return: snap.finished.load(Ordering::SeqCst),
                states: std::mem::take(&mut *snap.states.lock().unwrap()),
            });
        }
        detsim::yield_with_info(PH_CALLER);
    });
    ctx.dispatching.store(false, Ordering::SeqCst);
    shred::verif_set_point(None);
    ctx.reap_pending();
    let events = std::mem::take(&mut *ctx.events.lock().unwrap());
    // a background job that panicked (real rayon would abort the process) never hands the
    // state back: the dispatcher is unusable from here on
    let broken = !report.escaped_panics.is_empty();
    let (cells_end, final_world) = if broken {
        b.broken = true;
        (vec![], vec![])
    } else {
        (probe_all(&ctx, ad.world()), snapshot_world(&ctx, ad.world_mut()))
    };
    let ro = RunOut {
        events,
        outcome: report.outcome,
        trace: report.trace,
        steps: report.steps,
        switches: report.switches,
        tasks: report.tasks,
        escaped: report.escaped_panics,
        calls: vec![],
        final_world,
        final_states: ctx.states.iter().map(|s| s.state.load(Ordering::SeqCst)).collect(),
        obs: ctx.states.iter().map(|s| s.obs.lock().unwrap().clone()).collect(),
        canary_torn: ctx.canary_torn.load(Ordering::SeqCst),
        max_busy: rayon::stats::MAX_BUSY.load(Ordering::SeqCst),
        fired: vec![],
    };
    AsyncOut {
        ro,
        obs,
        cells_end,
        setups: ctx.states.iter().zip(setups0.iter()).map(|(s, z)| s.setup.load(Ordering::SeqCst) - z).collect(),
        runs: ctx.states.iter().map(|s| s.run.load(Ordering::SeqCst)).collect(),
    }
}

fn vio(prop: &str, class: &str, msg: String) -> Violation {
    Violation { prop: prop.into(), class: class.into(), msg }
}

/// C15 (+ the async parts of C12 / C13 / C04) over one async history.
pub fn check_async(sc: &Scenario, b: &BuiltAsync, ao: &AsyncOut, out: &mut Vec<Violation>) {
    let infos = &b.ctx.infos;
    let n_ord = infos.iter().filter(|i| i.parent.is_none() && i.kind != Kind::Tl).count() as u64;
    let tls: Vec<usize> = infos.iter().filter(|i| i.parent.is_none() && i.kind == Kind::Tl).map(|i| i.sid).collect();
    let ev = &ao.ro.events;
    for (oi, o) in ao.obs.iter().enumerate() {
        let complete = o.runs == o.dispatched * n_ord;
        match o.op {
            AOp::Running => {
                let r = o.result.unwrap_or(false);
                if !r && (o.active != 0 || !complete) {
                    out.push(vio(
                        "C15",
                        "running-false-while-running",
                        format!("operation #{}: running() returned false while {} system(s) were inside run and {} of {} system runs of the dispatches issued so far had started", oi, o.active, o.runs, o.dispatched * n_ord),
                    ));
                }
                // (that running() turns false promptly once everything has finished is not
                // promised; it is a probe only)
            }
            AOp::Dispatch => {
                // a second dispatch must not start before the previous one is complete
                if o.active != 0 || !complete {
                    out.push(vio(
                        "C15",
                        "dispatch-overtook",
                        format!("operation #{}: dispatch started the next background job while {} system(s) of earlier dispatches were inside run ({} of {} runs started)", oi, o.active, o.runs, o.dispatched * n_ord),
                    ));
                }
            }
            _ => {
                if o.active != 0 || !complete {
                    out.push(vio(
                        "C15",
                        "accessor-returned-early",
                        format!("operation #{} ({:?}) returned while {} system(s) were inside run; {} of {} system runs of the earlier dispatches had started", oi, o.op, o.active, o.runs, o.dispatched * n_ord),
                    ));
                }
            }
        }
        // thread-local systems: only inside wait, every one of them, in order, on the caller
        let tl_events: Vec<&Event> = ev.iter().filter(|e| e.seq >= o.begin_seq && e.seq < o.end_seq && e.kind == Ev::TlEnter && infos[e.sid as usize].parent.is_none()).collect();
        if o.op == AOp::Wait {
            if !tl_events.is_empty() && (o.active != 0 || !complete) {
                // the blocking part of wait came back before the dispatches issued so far were
                // complete, and the thread-local systems were started all the same
                out.push(vio(
                    "C12",
                    "tl-before-others-finished",
                    format!("operation #{} (wait) started thread-local system {} while {} system(s) of earlier dispatches were inside run ({} of {} system runs had started)", oi, tl_events[0].sid, o.active, o.runs, o.dispatched * n_ord),
                ));
            }
            let got: Vec<usize> = tl_events.iter().map(|e| e.sid as usize).collect();
            // a wait that no dispatch precedes (since the previous wait) owes the thread-local
            // systems nothing: running them again (what the library does) and not running them
            // are both within the statements
            let since_last_wait = sc.aops[..oi].iter().rev().take_while(|o| **o != AOp::Wait).filter(|o| **o == AOp::Dispatch).count();
            if got != tls && !(since_last_wait == 0 && got.is_empty()) {
                let m = format!("operation #{} (wait): thread-local systems that ran: {:?}, registered: {:?}", oi, got, tls);
                out.push(vio("C15", "wait-tl-mismatch", m.clone()));
                out.push(vio("C12", if got.len() < tls.len() { "tl-not-run" } else { "tl-order" }, m.clone()));
                if got.len() != tls.len() {
                    // wait is where the thread-local systems of the dispatches issued since the
                    // last wait get their run
                    out.push(vio("C04", if got.len() < tls.len() { "tl-skipped" } else { "tl-ran-twice" }, m));
                }
            }
            for e in &tl_events {
                if e.task != 0 || e.worker {
                    let m = format!("operation #{} (wait): thread-local system {} executed by task {} (pool worker: {}), the caller is task 0", oi, e.sid, e.task, e.worker);
                    out.push(vio("C15", "tl-wrong-thread", m.clone()));
                    out.push(vio("C12", "tl-wrong-thread", m));
                }
            }
        } else if !tl_events.is_empty() {
            let m = format!("operation #{} ({:?}) ran thread-local system(s) {:?}; they may only run inside wait", oi, o.op, tl_events.iter().map(|e| e.sid).collect::<Vec<_>>());
            out.push(vio("C15", "tl-outside-wait", m.clone()));
            out.push(vio("C12", "tl-outside-wait", m));
        }
    }
    // no enter of dispatch k+1 before the last exit of dispatch k; each dispatch runs every
    // ordinary system exactly once (a dispatch in which a panic was injected is not complete,
    // and nothing after it can be: there the accessor oracles above are what counts)
    let job_panic = sc.faults.iter().any(|f| matches!(f.kind, FaultKind::PanicBefore | FaultKind::PanicMid | FaultKind::PanicAfter));
    let h = history(ev, infos);
    let mut insts: Vec<u64> = h.occs.iter().filter(|o| infos[o.sid].parent.is_none() && o.kind != Kind::Tl).map(|o| o.inst).collect();
    insts.sort();
    insts.dedup();
    let mut last_end = 0u64;
    for inst in &insts {
        let occs: Vec<&Occ> = h.occs.iter().filter(|o| o.inst == *inst && infos[o.sid].parent.is_none() && o.kind != Kind::Tl).collect();
        let first = occs.iter().map(|o| o.enter).min().unwrap_or(0);
        if first < last_end {
            out.push(vio("C15", "dispatches-overlap", format!("a system of dispatch instance {} entered at {} before the previous dispatch had ended at {}", inst, first, last_end)));
        }
        last_end = last_end.max(occs.iter().map(|o| o.end).max().unwrap_or(0));
        for i in infos.iter().filter(|i| i.parent.is_none() && i.kind != Kind::Tl && !job_panic) {
            let n = occs.iter().filter(|o| o.sid == i.sid).count();
            if n != 1 {
                let m = format!("async dispatch instance {}: system {} ran {} time(s)", inst, i.sid, n);
                out.push(vio("C15", "not-exactly-once", m.clone()));
                out.push(vio("C04", if n == 0 { "skipped" } else { "ran-twice" }, m));
            }
        }
    }
    let ndisp = sc.aops.iter().filter(|o| **o == AOp::Dispatch).count() as u64;
    if insts.len() as u64 != ndisp && n_ord > 0 && !job_panic {
        let m = format!("{} dispatch operations were issued, systems ran in {} dispatch instances", ndisp, insts.len());
        out.push(vio("C15", "not-exactly-once", m.clone()));
        out.push(vio("C04", "dispatch-count", m));
    }
    for i in infos.iter().filter(|i| i.parent.is_none() && i.kind != Kind::Tl && !job_panic) {
        if ao.runs[i.sid] != ndisp {
            let m = format!("system {} ran {} time(s) in {} asynchronous dispatches", i.sid, ao.runs[i.sid], ndisp);
            out.push(vio("C15", "not-exactly-once", m.clone()));
            out.push(vio("C04", if ao.runs[i.sid] < ndisp { "skipped" } else { "ran-twice" }, m));
        }
    }
    // setup reaches everything, also when issued while a dispatch is in flight (C13)
    let nsetup = sc.aops.iter().filter(|o| **o == AOp::Setup).count() as u64;
    // (a Setup operation that was left by an injected panic has not reached everybody; a run
    // that ended early - the job died - has not performed every operation)
    let cut_short = sc.faults.iter().any(|f| f.kind == FaultKind::SetupPanic) || ao.obs.len() < sc.aops.len();
    for i in infos.iter().filter(|i| i.kind != Kind::Batch && !cut_short) {
        if ao.setups[i.sid] != nsetup {
            let m = format!("system {} ({:?}, batch depth {}) had its setup called {} time(s) by {} call(s) of AsyncDispatcher::setup", i.sid, i.kind, i.depth, ao.setups[i.sid], nsetup);
            out.push(vio("C13", if ao.setups[i.sid] < nsetup { "setup-missed" } else { "setup-twice" }, m));
        }
    }
    for (l, c) in ao.cells_end.iter().enumerate() {
        if matches!(c, Cell::Shared | Cell::Excl) {
            out.push(vio("C15", "leaked-borrow", format!("after the last wait logical resource {} is still borrowed ({:?})", l, c)));
        }
    }
}

/// Make a scenario an async one: caller operations, no panics, no library-driven batches
/// (their end is not observable), at least one dispatch, a final wait.
pub fn asyncify(sc: &mut Scenario, rng: &mut Rng) {
    sc.asyncd = true;
    sc.calls.clear();
    sc.faults.clear();
    sc.lifecycle.clear();
    sc.from_pool = None;
    fn no_multi(regs: &mut [Reg]) {
        for r in regs.iter_mut() {
            if let Reg::Batch { multi, inner, .. } = r {
                *multi = false;
                no_multi(inner);
            }
        }
    }
    no_multi(&mut sc.regs);
    // a dispatcher registered as a thread-local system has no observable start: not in async scenarios
    sc.regs.retain(|r| !matches!(r, Reg::TlDisp { .. }));
    let n = 2 + rng.below(7) as usize;
    let mut ops = Vec::new();
    for _ in 0..n {
        let op = match rng.below(100) {
            0..=34 => AOp::Dispatch,
            35..=54 => AOp::Running,
            55..=69 => AOp::Wait,
            70..=77 => AOp::WaitNoTl,
            78..=85 => AOp::World,
            86..=93 => AOp::WorldMut,
            _ => AOp::Setup,
        };
        ops.push(op);
        if op == AOp::Dispatch && rng.chance(1, 2) {
            // poll while the job is (probably) in flight
            for _ in 0..rng.below(3) {
                ops.push(AOp::Running);
            }
        }
    }
    if !ops.contains(&AOp::Dispatch) {
        ops.insert(0, AOp::Dispatch);
    }
    ops.push(AOp::Wait);
    sc.aops = ops;
}

pub struct AsyncEval {
    pub violations: Vec<Violation>,
    pub digest: u64,
    pub inter_digest: u64,
    pub trace: Vec<u32>,
    pub steps: u64,
    pub switches: u64,
    pub tasks: u64,
    pub overlap_pairs: u64,
    pub ops: Vec<(AOp, Option<bool>)>,
    pub blocked_ops: u64,
}

/// C05 for the async dispatcher: compare the end state with a sequential twin (set by the C05
/// check only; one more build and run per execution).
pub static COMPARE_WITH_SEQ: std::sync::atomic::AtomicBool = std::sync::atomic::AtomicBool::new(false);

/// The same work done sequentially by a synchronous twin: every dispatch operation becomes a
/// `dispatch_seq`, every `wait` a `dispatch_thread_local`.
fn compare_with_sequential_twin(sc: &Scenario, ao: &AsyncOut, out: &mut Vec<Violation>) {
    if !ao.ro.escaped.is_empty() || !matches!(ao.ro.outcome, detsim::Outcome::Done) {
        return;
    }
    let mut s2 = sc.clone();
    s2.asyncd = false;
    s2.aops.clear();
    s2.faults.clear();
    s2.calls = sc
        .aops
        .iter()
        .filter_map(|o| match o {
            AOp::Dispatch => Some(crate::plan::Call::DispatchSeq),
            AOp::Wait => Some(crate::plan::Call::DispatchTl),
            _ => None,
        })
        .collect();
    let mut twin = build(&s2, &BuildOpts::default());
    let rr = crate::run::run_calls(&mut twin, &s2, &StratSpec::NoPreempt, 0, None);
    if rr.calls.iter().any(|c| c.panic.is_some()) {
        return;
    }
    // at the instant a blocking accessor returns, every ordinary system must be where the
    // sequential twin is after the same number of dispatches (a caller that holds the world
    // through a shared handle can look at it from that instant on)
    let inf = infos(&sc.regs);
    for (oi, o) in ao.obs.iter().enumerate() {
        if !matches!(o.op, AOp::Wait | AOp::WaitNoTl | AOp::World | AOp::WorldMut) || o.states.is_empty() {
            continue;
        }
        let mut s3 = s2.clone();
        s3.calls = sc.aops[..oi]
            .iter()
            .filter_map(|o| match o {
                AOp::Dispatch => Some(crate::plan::Call::DispatchSeq),
                AOp::Wait => Some(crate::plan::Call::DispatchTl),
                _ => None,
            })
            .collect();
        let r3 = crate::run::run_calls(&mut twin, &s3, &StratSpec::NoPreempt, 0, None);
        if r3.calls.iter().any(|c| c.panic.is_some()) {
            continue;
        }
        if let Some(i) = inf.iter().find(|i| i.kind != Kind::Tl && o.states.get(i.sid) != r3.final_states.get(i.sid)) {
            out.push(vio(
                "C05",
                "state-at-return-differs",
                format!("operation #{} ({:?}) returned, but system {} is not in the state it has after the same {} dispatch(es) done sequentially (it had not finished, or ran a different number of times)", oi, o.op, i.sid, s3.calls.iter().filter(|c| **c == crate::plan::Call::DispatchSeq).count()),
            ));
            crate::dfamily::eval_dispose(twin);
            return;
        }
    }
    for (l, (a, c)) in ao.ro.final_world.iter().zip(rr.final_world.iter()).enumerate() {
        if a.map(|x| x.v) != c.map(|x| x.v) {
            out.push(vio("C05", "world-differs", format!("logical resource {}: value after the asynchronous dispatches {:?}, after the same work dispatched sequentially {:?}", l, a.map(|x| x.v), c.map(|x| x.v))));
            crate::dfamily::eval_dispose(twin);
            return;
        }
    }
    for sid in 0..ao.ro.final_states.len().min(rr.final_states.len()) {
        if ao.ro.final_states[sid] != rr.final_states[sid] || ao.ro.obs[sid] != rr.obs[sid] {
            out.push(vio("C05", "system-state-differs", format!("system {}: state / observation log after the asynchronous dispatches differs from the sequential twin ({} vs {} observations)", sid, ao.ro.obs[sid].len(), rr.obs[sid].len())));
            break;
        }
    }
    crate::dfamily::eval_dispose(twin);
}

pub fn eval_async_on(b: &mut BuiltAsync, sc: &Scenario, strat: &StratSpec, rs: u64, trace: Option<Vec<u32>>) -> AsyncEval {
    if b.layout.ident_panic.is_none() && !crate::dfamily::rendezvous_well_formed(sc, &b.layout, &b.ctx.infos) {
        // (see there: an edited scenario whose rendezvous members cannot meet by construction)
        return AsyncEval { violations: vec![], digest: 0, inter_digest: 0, trace: vec![], steps: 0, switches: 0, tasks: 0, overlap_pairs: 0, ops: vec![], blocked_ops: 0 };
    }
    let ao = run_async(b, sc, strat, rs, trace);
    let infos = &b.ctx.infos;
    let mut out = Vec::new();
    if COMPARE_WITH_SEQ.load(Ordering::Relaxed) && !b.broken {
        compare_with_sequential_twin(sc, &ao, &mut out);
    }
    let h = history(&ao.ro.events, infos);
    let ov = check_isolation(&h, infos, &mut out);
    check_borrow_noise(sc, &ao.ro, &mut out);
    check_deps(&h, infos, &mut out);
    check_barriers(&h, infos, &mut out);
    check_async(sc, b, &ao, &mut out);
    // systems inside batches: once per inner dispatch (the top-level counts are check_async's)
    check_counts(sc, &h, infos, &ao.ro, &mut out);
    match &ao.ro.outcome {
        detsim::Outcome::Done => {}
        o => out.push(vio("HARNESS", "outcome", format!("{:?}", o))),
    }
    for e in &ao.ro.escaped {
        let injected = sc.faults.iter().any(|f| matches!(f.kind, FaultKind::PanicBefore | FaultKind::PanicMid | FaultKind::PanicAfter));
        if !crate::util::is_borrow_panic(e) && !e.contains("Sender dropped") && !(injected && e.contains("HPANIC sid=")) {
            out.push(vio("HARNESS", "escaped-panic", e.clone()));
        }
    }
    let blocked_ops = ao.obs.iter().filter(|o| o.op != AOp::Running && o.finished_at_issue < o.dispatched).count() as u64;
    AsyncEval {
        violations: out,
        digest: log_digest(&ao.ro.events),
        inter_digest: interleaving_digest(&ao.ro.events),
        trace: ao.ro.trace.clone(),
        steps: ao.ro.steps,
        switches: ao.ro.switches,
        tasks: ao.ro.tasks as u64,
        overlap_pairs: ov,
        ops: ao.obs.iter().map(|o| (o.op, o.result)).collect(),
        blocked_ops,
    }
}

pub fn dispose_async(mut b: BuiltAsync) {
    // the async dispatcher has no dispose; dropping it must not hang or panic
    let ad = b.ad.take();
    if b.broken {
        std::mem::forget(ad);
    } else {
        drop(ad);
    }
}
