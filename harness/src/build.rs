//! Turn a scenario into a real `DispatcherBuilder` / `Dispatcher`, recover the
//! layout that is really executed (shape hook + identification run), snapshot
//! and restore the world and the system states.

use std::marker::PhantomData;
use std::rc::Rc;
use std::sync::atomic::Ordering;
use std::sync::Arc;

use shred::{Dispatcher, DispatcherBuilder, MultiDispatcher, World};

use crate::plan::{infos, Kind, Reg, Scenario};
use crate::res::Core;
use crate::sys::*;

#[cfg(feature = "par")]
pub type Pool = Arc<rayon::ThreadPool>;

fn ctl_ty(ctx: &Ctx, l: Option<usize>) -> Option<u8> {
    l.map(|l| {
        let k = ctx.resmap[l];
        assert!(k.ty < 4 && k.dynid == 0, "controller data must map to a static type");
        k.ty
    })
}

struct AddBatch<'x> {
    b: &'x mut DispatcherBuilder<'static, 'static>,
    ctx: &'x Arc<Ctx>,
    sid: usize,
    times: u8,
    multi: bool,
    hint: u8,
    inner: DispatcherBuilder<'static, 'static>,
    name: &'x str,
    deps: &'x [&'x str],
}

impl FamVisitor for AddBatch<'_> {
    fn visit<F: Fam>(self) {
        if self.multi {
            let c = PlanCtl::<F> { ctx: self.ctx.clone(), sid: self.sid, times: self.times, _m: PhantomData };
            self.b.add_batch::<MultiDispatcher<PlanCtl<F>>>(MultiDispatcher::new(c), self.inner, self.name, self.deps);
        } else {
            let c = Ctl::<F> { ctx: self.ctx.clone(), sid: self.sid, times: self.times, hint: self.hint, _m: PhantomData };
            self.b.add_batch::<Ctl<F>>(c, self.inner, self.name, self.deps);
        }
    }
}

struct AddTyped<'x> {
    b: &'x mut DispatcherBuilder<'static, 'static>,
    ctx: &'x Arc<Ctx>,
    sid: usize,
    hint: u8,
    name: &'x str,
    deps: &'x [&'x str],
}

impl FamVisitor for AddTyped<'_> {
    fn visit<F: Fam>(self) {
        self.b.add(TypedSys::<F> { ctx: self.ctx.clone(), sid: self.sid, hint: self.hint, _m: PhantomData }, self.name, self.deps);
    }
}

/// Can this registration be a typed system (library data from the static family)?
pub fn typed_ok(ctx: &Ctx, reads: &[usize], writes: &[usize]) -> bool {
    reads.len() <= 1 && writes.len() <= 1 && reads.iter().chain(writes.iter()).all(|&l| crate::plan::ctl_ok(&ctx.resmap[l])) && (reads.is_empty() || writes.is_empty() || reads[0] != writes[0])
}

/// Register everything of `regs` on a fresh builder. `sid` runs in depth-first order, exactly
/// like `plan::infos`.
pub fn make_builder(ctx: &Arc<Ctx>, regs: &[Reg], sid: &mut usize) -> DispatcherBuilder<'static, 'static> {
    make_builder_cb(ctx, regs, sid, &mut |_, _| {})
}

/// Like `make_builder`; `after` is called with the (top-level) builder after each of its
/// registrations (C20 formats the builder at chosen points of the registration sequence).
/// Only ever offered to the builder in registrations it must reject.
pub struct NopSys;

impl<'a> shred::System<'a> for NopSys {
    type SystemData = ();

    fn run(&mut self, _: ()) {}
}

pub fn make_builder_cb(
    ctx: &Arc<Ctx>,
    regs: &[Reg],
    sid: &mut usize,
    after: &mut dyn FnMut(&mut DispatcherBuilder<'static, 'static>, usize),
) -> DispatcherBuilder<'static, 'static> {
    let mut b = DispatcherBuilder::new();
    for (ri, r) in regs.iter().enumerate() {
        match r {
            Reg::Barrier => b.add_barrier(),
            Reg::Sys { name, deps, reads, writes, hint, expect, typed } => {
                let d: Vec<&str> = deps.iter().map(|x| x.as_str()).collect();
                if *typed && typed_ok(ctx, reads, writes) {
                    let v = AddTyped { b: &mut b, ctx, sid: *sid, hint: *hint, name, deps: &d };
                    if *expect {
                        // the optional forms: same declared access, nothing created at setup
                        pick_fam_opt(ctl_ty(ctx, reads.first().copied()), ctl_ty(ctx, writes.first().copied()), v);
                    } else {
                        pick_fam(ctl_ty(ctx, reads.first().copied()), ctl_ty(ctx, writes.first().copied()), v);
                    }
                } else {
                    let mut s = DynSys::new(ctx, *sid, reads, writes, *hint);
                    s.acc.expect = *expect;
                    // every third such system leaves `System::setup` to the library's default
                    if *sid % 3 == 2 {
                        s.acc.default_setup = true;
                        b.add(DynSysDefaultSetup(s), name, &d);
                    } else {
                        b.add(s, name, &d);
                    }
                }
                *sid += 1;
            }
            Reg::Tl { reads, writes } => {
                let s = TlSys { ctx: ctx.clone(), sid: *sid, reads: reads.clone(), writes: writes.clone(), _nosend: Rc::new(()) };
                *sid += 1;
                b.add_thread_local(s);
            }
            Reg::TlDisp { inner } => {
                *sid += 1;
                let ib = make_builder(ctx, inner, sid);
                // registered through `RunNow for Dispatcher`
                b.add_thread_local(ib.build());
            }
            Reg::Batch { name, deps, ctl_read, ctl_write, times, multi, hint, inner } => {
                let my = *sid;
                *sid += 1;
                let ib = make_builder(ctx, inner, sid);
                let d: Vec<&str> = deps.iter().map(|x| x.as_str()).collect();
                let v = AddBatch { b: &mut b, ctx, sid: my, times: *times, multi: *multi, hint: *hint, inner: ib, name, deps: &d };
                pick_fam(ctl_ty(ctx, *ctl_read), ctl_ty(ctx, *ctl_write), v);
            }
        }
        after(&mut b, ri);
    }
    b
}

/// stage -> group -> sids, per dispatcher (key: None = top level, Some(batch sid) = inner)
#[derive(Clone, Debug, Default, PartialEq, Eq)]
pub struct Layout {
    pub top: Vec<Vec<Vec<usize>>>,
    pub inner: Vec<(usize, Vec<Vec<Vec<usize>>>)>,
    pub tl_top: usize,
    /// position of every sid inside its dispatcher: (stage, group, pos); None for thread-local
    pub pos: Vec<Option<(usize, usize, usize)>>,
    pub shape_ok: bool,
    pub problems: Vec<String>,
    /// the identification dispatch (a `dispatch_seq` right after `Dispatcher::setup`) panicked
    pub ident_panic: Option<String>,
}

impl Layout {
    pub fn of(&self, parent: Option<usize>) -> Option<&Vec<Vec<Vec<usize>>>> {
        match parent {
            None => Some(&self.top),
            Some(p) => self.inner.iter().find(|x| x.0 == p).map(|x| &x.1),
        }
    }

    pub fn canonical(&self) -> String {
        let mut s = format!("{:?}|tl{}", self.top, self.tl_top);
        for (p, l) in &self.inner {
            s.push_str(&format!("|{}:{:?}", p, l));
        }
        s
    }
}

fn fill(shape: &[Vec<usize>], order: &[usize], problems: &mut Vec<String>, what: &str) -> Vec<Vec<Vec<usize>>> {
    let mut it = order.iter().copied();
    let total: usize = shape.iter().map(|s| s.iter().sum::<usize>()).sum();
    if total != order.len() {
        problems.push(format!("{}: shape holds {} systems, identification run saw {}", what, total, order.len()));
    }
    shape
        .iter()
        .map(|st| st.iter().map(|&n| (0..n).filter_map(|_| it.next()).collect()).collect())
        .collect()
}

pub struct Built {
    pub ctx: Arc<Ctx>,
    pub world: World,
    pub disp: Option<Dispatcher<'static, 'static>>,
    pub layout: Layout,
    pub snapshot: Vec<Option<Core>>,
    pub debug_text: Option<Result<String, String>>,
    pub debug_text_pretty: Option<Result<String, String>>,
    pub debug_text_specs: Vec<(&'static str, Result<String, String>)>,
    pub early_prints: Vec<(usize, Result<String, String>)>,
    /// how many times `Dispatcher::setup` was called (1 + lifecycle `Setup` ops)
    pub expected_setups: u64,
    /// differences between the world after setup and the reference world (C13)
    pub setup_problems: Vec<String>,
    #[cfg(feature = "par")]
    pub pool: Option<Pool>,
}

#[derive(Clone, Copy, Debug, PartialEq)]
enum ModelVal {
    Absent,
    Sentinel(Core),
    Created,
}

fn declared_mask(ctx: &Ctx) -> u32 {
    ctx.infos.iter().filter(|i| !i.expect).fold(0, |m, i| m | i.rmask | i.wmask)
}

/// Reference model of `setup`: creates exactly the declared resources that are absent.
fn model_setup(model: &mut [ModelVal], declared: u32) {
    for (l, m) in model.iter_mut().enumerate() {
        if declared & (1 << l) != 0 && *m == ModelVal::Absent {
            *m = ModelVal::Created;
        }
    }
}

fn compare_model(ctx: &Ctx, world: &mut World, model: &[ModelVal], when: &str, out: &mut Vec<String>) {
    let snap = snapshot_world(ctx, world);
    for (l, (m, w)) in model.iter().zip(snap.iter()).enumerate() {
        match (m, w) {
            (ModelVal::Absent, None) => {}
            (ModelVal::Absent, Some(c)) => out.push(format!("{}: logical resource {} is declared by no system but exists after setup ({:?})", when, l, c)),
            (ModelVal::Sentinel(c), Some(x)) if c == x => {}
            (ModelVal::Sentinel(c), Some(x)) => out.push(format!("{}: logical resource {} existed with {:?} before setup and holds {:?} afterwards (clobbered)", when, l, c, x)),
            (ModelVal::Sentinel(_), None) => out.push(format!("{}: logical resource {} existed before setup and is gone afterwards", when, l)),
            (ModelVal::Created, Some(x)) => {
                if *x != default_core(l) && *x != Core::default() {
                    out.push(format!("{}: logical resource {} was created by setup with a non-default value {:?}", when, l, x));
                }
            }
            (ModelVal::Created, None) => out.push(format!("{}: logical resource {} is accessed through a default-providing accessor but does not exist after setup", when, l)),
        }
    }
}

pub fn snapshot_world(ctx: &Ctx, w: &mut World) -> Vec<Option<Core>> {
    ctx.resmap.iter().map(|k| (k.vt().get)(w, k.dynid)).collect()
}

pub fn restore_world(ctx: &Ctx, w: &mut World, snap: &[Option<Core>]) {
    for (k, s) in ctx.resmap.iter().zip(snap) {
        match s {
            Some(c) => {
                if !(k.vt().set)(w, k.dynid, *c) {
                    (k.vt().insert)(w, k.dynid, *c);
                }
            }
            None => {
                (k.vt().remove)(w, k.dynid);
            }
        }
    }
}

pub fn reset_states(ctx: &Ctx) {
    for s in &ctx.states {
        s.state.store(0, Ordering::SeqCst);
        s.obs.lock().unwrap().clear();
        s.occ.store(0, Ordering::SeqCst);
        s.in_window.store(false, Ordering::SeqCst);
        s.cur_inst.store(0, Ordering::SeqCst);
        s.run.store(0, Ordering::SeqCst);
        s.planned.store(0, Ordering::SeqCst);
        s.enters.store(0, Ordering::SeqCst);
    }
    ctx.active.store(0, Ordering::SeqCst);
    ctx.canary_torn.store(0, Ordering::SeqCst);
    ctx.events.lock().unwrap().clear();
    for d in ctx.directives.lock().unwrap().iter_mut() {
        d.clear();
    }
    ctx.rdv.lock().unwrap().clear();
    ctx.cur_call.store(0, Ordering::SeqCst);
    ctx.async_dispatched.store(0, Ordering::SeqCst);
    ctx.top_inst.store(0, Ordering::SeqCst);
    ctx.next_inst.store(1, Ordering::SeqCst);
}

/// Identification: one `dispatch_seq` of the self-identifying systems, combined with the
/// shape hook, gives stage -> group -> [sid] of the structure that is really executed.
pub fn identify(ctx: &Arc<Ctx>, disp: &mut Dispatcher<'static, 'static>, world: &World) -> Layout {
    let n = ctx.infos.len();
    let mut lay = Layout { pos: vec![None; n], shape_ok: true, ..Default::default() };
    ctx.mode.store(1, Ordering::SeqCst);
    ctx.events.lock().unwrap().clear();
    let (shape, tl) = disp.verif_shape();
    ctx.dispatching.store(true, Ordering::SeqCst);
    let r = std::panic::catch_unwind(std::panic::AssertUnwindSafe(|| disp.dispatch_seq(world)));
    ctx.dispatching.store(false, Ordering::SeqCst);
    ctx.mode.store(0, Ordering::SeqCst);
    if let Err(p) = r {
        lay.ident_panic = Some(crate::util::payload_string(&p));
        lay.shape_ok = false;
        ctx.events.lock().unwrap().clear();
        return lay;
    }
    let evs = std::mem::take(&mut *ctx.events.lock().unwrap());
    let mut order_of = |parent: Option<usize>| -> Vec<usize> {
        let mut v = Vec::new();
        let mut first_inst: Option<u64> = None;
        for e in evs.iter().filter(|e| e.kind == Ev::Enter) {
            let sid = e.sid as usize;
            if ctx.infos[sid].parent == parent && ctx.infos[sid].kind != Kind::Tl {
                // for inner dispatchers only the first inner dispatch counts
                match first_inst {
                    None => first_inst = Some(e.inst),
                    Some(i) if i != e.inst => continue,
                    _ => {}
                }
                if !v.contains(&sid) {
                    v.push(sid);
                }
            }
        }
        v
    };
    let mut problems = Vec::new();
    lay.top = fill(&shape, &order_of(None), &mut problems, "top");
    lay.tl_top = tl;
    for i in ctx.infos.iter().filter(|i| i.kind == Kind::Batch) {
        let sh = ctx.states[i.sid].inner_shape.lock().unwrap().clone();
        match sh {
            Some((s, _tl)) => {
                let l = fill(&s, &order_of(Some(i.sid)), &mut problems, "batch");
                lay.inner.push((i.sid, l));
            }
            None => {
                if !i.multi {
                    // batch never ran during identification (cannot happen when every system runs once)
                    problems.push(format!("batch {} did not run in the identification dispatch", i.sid));
                }
            }
        }
    }
    let mut record = |l: &Vec<Vec<Vec<usize>>>| {
        for (s, st) in l.iter().enumerate() {
            for (g, gr) in st.iter().enumerate() {
                for (p, &sid) in gr.iter().enumerate() {
                    lay.pos[sid] = Some((s, g, p));
                }
            }
        }
    };
    let top = lay.top.clone();
    record(&top);
    for (_, l) in lay.inner.clone().iter() {
        record(l);
    }
    lay.shape_ok = problems.is_empty();
    lay.problems = problems;
    lay
}

pub struct BuildOpts {
    pub capture_debug: bool,
    pub do_setup: bool,
    /// also format the builder after these top-level registrations (indices into `regs`)
    pub print_after: Vec<usize>,
    /// after these top-level registrations (indices into `regs`) attempt a registration that
    /// the builder rejects by panicking (true: reuse of an existing name if there is one,
    /// false: unknown dependency); the panic is caught and the builder used on
    pub rejects: Vec<(usize, bool)>,
}

impl Default for BuildOpts {
    fn default() -> Self {
        BuildOpts { capture_debug: false, do_setup: true, print_after: vec![], rejects: vec![] }
    }
}

/// Build world + dispatcher for a scenario (outside any simulation).
pub fn build(sc: &Scenario, opts: &BuildOpts) -> Built {
    // Engine R: with fewer workers than parked systems, *which* queued group a free worker of
    // the real pool picks next is rayon's internal choice and would show in the event log. Give
    // the real pool a worker for every system (the stub pool of engine S is the one that
    // explores small pools; there the choice belongs to the scheduler).
    #[cfg(feature = "real")]
    let sc = &{
        let mut s = sc.clone();
        let need = crate::plan::count_systems(&s.regs) + 2;
        s.pool.supplied = s.pool.supplied.map(|n| n.max(need));
        s.pool.machine = s.pool.machine.max(need);
        s
    };
    crate::hashseed::set(sc.hash_seed);
    #[cfg(feature = "sim")]
    rayon::set_machine_size(sc.pool.machine);
    // real rayon reads the size of a default-built pool from the environment (a configuration seam)
    #[cfg(feature = "real")]
    std::env::set_var("RAYON_NUM_THREADS", sc.pool.machine.to_string());
    let ctx = Ctx::new(infos(&sc.regs), sc.resmap.clone());
    ctx.fine.store(sc.fine_points, Ordering::SeqCst);
    let mut world = World::empty();
    for (l, k) in sc.resmap.iter().enumerate() {
        if sc.present[l] {
            (k.vt().insert)(&mut world, k.dynid, Core { v: 7_000_000 + l as u64 * 13, ca: 5, cb: 5 });
        }
    }
    let mut sid = 0;
    let mut early_prints: Vec<(usize, Result<String, String>)> = Vec::new();
    let mut b = make_builder_cb(&ctx, &sc.regs, &mut sid, &mut |b, ri| {
        for (_, dup) in opts.rejects.iter().filter(|(k, _)| *k == ri) {
            let existing: Option<String> = sc.regs[..=ri].iter().rev().find_map(|r| match r {
                Reg::Sys { name, .. } | Reg::Batch { name, .. } if !name.is_empty() => Some(name.clone()),
                _ => None,
            });
            let r = std::panic::catch_unwind(std::panic::AssertUnwindSafe(|| match (&existing, *dup) {
                (Some(n), true) => b.add(NopSys, n, &[]),
                _ => b.add(NopSys, "", &["no system of this name was ever registered"]),
            }));
            assert!(r.is_err(), "an ill-formed registration was accepted");
        }
        if opts.print_after.contains(&ri) {
            let r = std::panic::catch_unwind(std::panic::AssertUnwindSafe(|| format!("{:?}", b)));
            early_prints.push((ri, r.map_err(|p| crate::util::payload_string(&p))));
        }
    });
    assert_eq!(sid, ctx.infos.len());
    #[cfg(feature = "par")]
    let mut pool = None;
    #[cfg(feature = "par")]
    if let Some(n) = sc.pool.supplied {
        let p = Arc::new(
            rayon::ThreadPoolBuilder::new()
                .num_threads(n)
                .thread_name(|i| format!("hsupplied-{}", i))
                .build()
                .expect("pool"),
        );
        b.add_pool(p.clone());
        pool = Some(p);
    }
    let debug_text = if opts.capture_debug {
        let r = std::panic::catch_unwind(std::panic::AssertUnwindSafe(|| format!("{:?}", b)));
        Some(r.map_err(|p| crate::util::payload_string(&p)))
    } else {
        None
    };
    let debug_text_pretty = if opts.capture_debug {
        let r = std::panic::catch_unwind(std::panic::AssertUnwindSafe(|| format!("{:#?}", b)));
        Some(r.map_err(|p| crate::util::payload_string(&p)))
    } else {
        None
    };
    // the caller's format spec (width, precision, fill, sign, zero padding - e.g. when the builder
    // is a field of a struct printed with `{:.3?}`) must not change the plan that is printed
    let mut debug_text_specs: Vec<(&'static str, Result<String, String>)> = Vec::new();
    if opts.capture_debug {
        macro_rules! spec {
            ($f:literal) => {
                let r = std::panic::catch_unwind(std::panic::AssertUnwindSafe(|| format!($f, b)));
                debug_text_specs.push(($f, r.map_err(|p| crate::util::payload_string(&p))));
            };
        }
        spec!("{:.3?}");
        spec!("{:24?}");
        spec!("{:#.1?}");
        spec!("{:*<9?}");
        spec!("{:+08.2?}");
    }
    let mut disp = b.build();
    let mut expected_setups = 0;
    let mut setup_problems = Vec::new();
    if opts.do_setup {
        use crate::plan::LifeOp;
        let declared = declared_mask(&ctx);
        let mut model: Vec<ModelVal> = sc
            .resmap
            .iter()
            .enumerate()
            .map(|(l, _)| if sc.present[l] { ModelVal::Sentinel(Core { v: 7_000_000 + l as u64 * 13, ca: 5, cb: 5 }) } else { ModelVal::Absent })
            .collect();
        disp.setup(&mut world);
        expected_setups = 1;
        model_setup(&mut model, declared);
        compare_model(&ctx, &mut world, &model, "first setup", &mut setup_problems);
        for op in &sc.lifecycle {
            match op {
                LifeOp::Remove(l) if *l < sc.resmap.len() && crate::plan::expect_only_mask(&sc.regs) & (1 << *l) != 0 => {
                    // nobody would re-create it: overwrite instead of removing
                    let k = sc.resmap[*l];
                    let c = Core { v: 9_100_000 + *l as u64, ca: 9, cb: 9 };
                    (k.vt().insert)(&mut world, k.dynid, c);
                    model[*l] = ModelVal::Sentinel(c);
                }
                LifeOp::Remove(l) if *l < sc.resmap.len() => {
                    let k = sc.resmap[*l];
                    (k.vt().remove)(&mut world, k.dynid);
                    model[*l] = ModelVal::Absent;
                }
                LifeOp::Put(l) if *l < sc.resmap.len() => {
                    let k = sc.resmap[*l];
                    let c = Core { v: 9_000_000 + *l as u64, ca: 7, cb: 7 };
                    (k.vt().insert)(&mut world, k.dynid, c);
                    model[*l] = ModelVal::Sentinel(c);
                }
                LifeOp::Setup => {
                    disp.setup(&mut world);
                    expected_setups += 1;
                    model_setup(&mut model, declared);
                    compare_model(&ctx, &mut world, &model, "repeated setup", &mut setup_problems);
                }
                _ => {}
            }
        }
    }
    let layout = if opts.do_setup { identify(&ctx, &mut disp, &world) } else { Layout::default() };
    // identification left run counters etc. behind
    let setups: Vec<u64> = ctx.states.iter().map(|s| s.setup.load(Ordering::SeqCst)).collect();
    reset_states(&ctx);
    for (s, v) in ctx.states.iter().zip(setups) {
        s.setup.store(v, Ordering::SeqCst);
    }
    let snapshot = snapshot_world(&ctx, &mut world);
    Built {
        ctx,
        world,
        disp: Some(disp),
        layout,
        snapshot,
        debug_text,
        debug_text_pretty,
        debug_text_specs,
        early_prints,
        expected_setups,
        setup_problems,
        #[cfg(feature = "par")]
        pool,
    }
}
