//! Scenario data model (explicit, serialisable, shrinkable) and the seeded
//! generator for dispatcher scenarios.

use crate::res::RKey;
use detsim::Rng;
use serde::{Deserialize, Serialize};

#[derive(Clone, Debug, Serialize, Deserialize, PartialEq)]
pub enum Reg {
    Sys {
        name: String,
        deps: Vec<String>,
        reads: Vec<usize>,
        writes: Vec<usize>,
        hint: u8,
        /// the system's setup creates nothing (like `ReadExpect` / `Option<Read>` data): whatever
        /// it declares must be created by someone else or exist beforehand
        #[serde(default)]
        expect: bool,
        /// the system's data is a library type (`Read` / `Write` / pair / unit); at most one read
        /// and one write, over controller-expressible resources
        #[serde(default)]
        typed: bool,
    },
    Barrier,
    Tl {
        reads: Vec<usize>,
        writes: Vec<usize>,
    },
    /// a whole inner `Dispatcher` registered as a thread-local system of this builder (it is used
    /// through its `RunNow` face: run_now = dispatch, setup, dispose)
    TlDisp {
        inner: Vec<Reg>,
    },
    Batch {
        name: String,
        deps: Vec<String>,
        /// controller's own declared data (logical resources; must map to a
        /// type < 4 with dynamic id 0, see `ctl_ok`)
        ctl_read: Option<usize>,
        ctl_write: Option<usize>,
        /// how often the controller dispatches the inner dispatcher
        times: u8,
        /// use the library's MultiDispatcher instead of a hand-written controller
        multi: bool,
        hint: u8,
        inner: Vec<Reg>,
    },
}

#[derive(Clone, Copy, Debug, Serialize, Deserialize, PartialEq, Eq)]
pub enum Call {
    Dispatch,
    DispatchPar,
    DispatchSeq,
    DispatchTl,
}

#[derive(Clone, Copy, Debug, Serialize, Deserialize, PartialEq, Eq)]
pub enum FaultKind {
    PanicBefore,
    PanicMid,
    PanicAfter,
    /// the system's first declared resource is removed before the call: fetch fails
    Rendezvous,
    ExtraSteps,
    Undeclared,
    /// async scenarios: the system's `setup` panics during the `call`-th Setup operation (the
    /// caller catches it and goes on using the dispatcher)
    SetupPanic,
}

#[derive(Clone, Debug, Serialize, Deserialize, PartialEq)]
pub struct Fault {
    pub sid: usize,
    /// which call (index into `calls`) the fault is armed for
    pub call: usize,
    pub kind: FaultKind,
    pub arg: u64,
}

#[derive(Clone, Debug, Serialize, Deserialize, PartialEq)]
pub struct PoolCfg {
    /// `with_pool(n)`; None = the builder creates its default pool
    pub supplied: Option<usize>,
    /// size of default-built pools ("machine size")
    pub machine: usize,
}

#[derive(Clone, Debug, Serialize, Deserialize, PartialEq)]
pub struct Scenario {
    pub resmap: Vec<RKey>,
    pub present: Vec<bool>,
    pub regs: Vec<Reg>,
    pub pool: PoolCfg,
    pub calls: Vec<Call>,
    pub faults: Vec<Fault>,
    /// scheduler points between member fetches / inside phases
    pub fine_points: bool,
    /// hash-key stream for ahash (simulated builds)
    pub hash_seed: u64,
    /// use the async dispatcher (C15 scenarios)
    #[serde(default)]
    pub asyncd: bool,
    /// operations between the first `setup` and the first dispatch (C13)
    #[serde(default)]
    pub lifecycle: Vec<LifeOp>,
    /// call the dispatch functions from inside a worker of another pool of this size
    #[serde(default)]
    pub from_pool: Option<usize>,
    /// caller operations of an async-dispatcher scenario
    #[serde(default)]
    pub aops: Vec<AOp>,
}

#[derive(Clone, Copy, Debug, Serialize, Deserialize, PartialEq, Eq)]
pub enum AOp {
    Dispatch,
    Running,
    Wait,
    WaitNoTl,
    World,
    WorldMut,
    Setup,
}

#[derive(Clone, Copy, Debug, Serialize, Deserialize, PartialEq, Eq)]
pub enum LifeOp {
    /// remove a logical resource from the world
    Remove(usize),
    /// call `Dispatcher::setup` again
    Setup,
    /// overwrite a logical resource with a sentinel value
    Put(usize),
}

/// Static description of one registered system, derived from the registration sequence.
#[derive(Clone, Debug)]
pub struct SysInfo {
    pub sid: usize,
    pub parent: Option<usize>,
    pub depth: usize,
    pub kind: Kind,
    pub name: String,
    /// dependencies resolved to sids (same builder), with multiplicity
    pub deps: Vec<usize>,
    /// number of barriers registered before it in its builder
    pub epoch: usize,
    /// own declared access (for a batch: controller data only)
    pub rmask: u32,
    pub wmask: u32,
    /// union access (for a batch: controller + everything inside, any depth)
    pub urmask: u32,
    pub uwmask: u32,
    pub hint: u8,
    pub times: u8,
    pub multi: bool,
    /// index among registrations of its builder (ordinary systems + batches only)
    pub reg_index: usize,
    /// its setup creates nothing
    pub expect: bool,
    /// a dispatcher registered as a thread-local system: no harness code of its own, its
    /// children are the systems of that inner dispatcher
    pub container: bool,
}

#[derive(Clone, Copy, Debug, PartialEq, Eq)]
pub enum Kind {
    Sys,
    Tl,
    Batch,
}

pub fn mask(v: &[usize]) -> u32 {
    v.iter().fold(0, |m, &i| m | (1u32 << i))
}

pub fn conf(ar: u32, aw: u32, br: u32, bw: u32) -> bool {
    (aw & (br | bw)) != 0 || (ar & bw) != 0
}

/// Flatten the registration tree into `SysInfo`s (sid = depth-first registration order).
pub fn infos(regs: &[Reg]) -> Vec<SysInfo> {
    let mut out = Vec::new();
    fn walk(regs: &[Reg], parent: Option<usize>, depth: usize, out: &mut Vec<SysInfo>) -> (u32, u32) {
        let mut names: Vec<(String, usize)> = Vec::new();
        let mut epoch = 0;
        let mut ur = 0;
        let mut uw = 0;
        let mut reg_index = 0;
        for r in regs {
            match r {
                Reg::Barrier => epoch += 1,
                Reg::Sys { name, deps, reads, writes, hint, expect, .. } => {
                    let sid = out.len();
                    let d = deps
                        .iter()
                        .filter_map(|n| names.iter().find(|(m, _)| m == n).map(|x| x.1))
                        .collect();
                    let (rm, wm) = (mask(reads), mask(writes));
                    out.push(SysInfo {
                        sid,
                        parent,
                        depth,
                        kind: Kind::Sys,
                        name: name.clone(),
                        deps: d,
                        epoch,
                        rmask: rm,
                        wmask: wm,
                        urmask: rm,
                        uwmask: wm,
                        hint: *hint,
                        times: 0,
                        multi: false,
                        reg_index,
                        expect: *expect,
                        container: false,
                    });
                    reg_index += 1;
                    if !name.is_empty() {
                        names.push((name.clone(), sid));
                    }
                    ur |= rm;
                    uw |= wm;
                }
                Reg::Tl { reads, writes } => {
                    let sid = out.len();
                    out.push(SysInfo {
                        sid,
                        parent,
                        depth,
                        kind: Kind::Tl,
                        name: String::new(),
                        deps: vec![],
                        epoch,
                        rmask: mask(reads),
                        wmask: mask(writes),
                        urmask: 0,
                        uwmask: 0,
                        hint: 0,
                        times: 0,
                        multi: false,
                        reg_index: usize::MAX,
                        expect: false,
                        container: false,
                    });
                }
                Reg::TlDisp { inner } => {
                    let sid = out.len();
                    out.push(SysInfo {
                        sid,
                        parent,
                        depth,
                        kind: Kind::Tl,
                        name: String::new(),
                        deps: vec![],
                        epoch,
                        rmask: 0,
                        wmask: 0,
                        urmask: 0,
                        uwmask: 0,
                        hint: 0,
                        times: 1,
                        multi: false,
                        reg_index: usize::MAX,
                        expect: false,
                        container: true,
                    });
                    walk(inner, Some(sid), depth + 1, out);
                }
                Reg::Batch { name, deps, ctl_read, ctl_write, times, multi, hint, inner } => {
                    let sid = out.len();
                    let d = deps
                        .iter()
                        .filter_map(|n| names.iter().find(|(m, _)| m == n).map(|x| x.1))
                        .collect();
                    let rm = ctl_read.map(|i| 1u32 << i).unwrap_or(0);
                    let wm = ctl_write.map(|i| 1u32 << i).unwrap_or(0);
                    out.push(SysInfo {
                        sid,
                        parent,
                        depth,
                        kind: Kind::Batch,
                        name: name.clone(),
                        deps: d,
                        epoch,
                        rmask: rm,
                        wmask: wm,
                        urmask: rm,
                        uwmask: wm,
                        hint: *hint,
                        times: *times,
                        multi: *multi,
                        reg_index,
                        expect: false,
                        container: false,
                    });
                    reg_index += 1;
                    if !name.is_empty() {
                        names.push((name.clone(), sid));
                    }
                    let (ir, iw) = walk(inner, Some(sid), depth + 1, out);
                    out[sid].urmask |= ir;
                    out[sid].uwmask |= iw;
                    ur |= out[sid].urmask;
                    uw |= out[sid].uwmask;
                }
            }
        }
        (ur, uw)
    }
    walk(regs, None, 0, &mut out);
    out
}

/// A controller's declared resource must be expressible as a static type: type < 4, dynamic id 0.
pub fn ctl_ok(k: &RKey) -> bool {
    k.ty < 4 && k.dynid == 0
}

// ------------------------------------------------------------------------------------------------
// Generator

#[derive(Clone, Debug)]
pub struct GenCfg {
    pub max_sys: usize,
    pub allow_batch: bool,
    pub allow_tl: bool,
    pub allow_barrier: bool,
    pub allow_deps: bool,
    pub max_depth: usize,
    pub big: bool,
}

impl Default for GenCfg {
    fn default() -> Self {
        GenCfg { max_sys: 14, allow_batch: true, allow_tl: true, allow_barrier: true, allow_deps: true, max_depth: 2, big: false }
    }
}

const NAME_PARTS: [&str; 12] = ["sys", "phys ics", "a-b", "x/y", "render", "ai", "net io", "z", "\u{fc}ber/sync", "\u{7269}\u{7406} step", "\u{e9}-x", "a\u{1f980} b-c/"];

struct Knobs {
    nres: usize,
    density: u64,   // per mille probability that a resource is used by a system
    wratio: u64,    // per cent of used resources that are written
    hot: Option<usize>,
    dep_p: u64,     // per cent
    barrier_p: u64, // per cent
    batch_p: u64,
    tl_p: u64,
    unnamed_p: u64,
    chain: bool, // conflict-chain mode drives groups to fill up
}

pub fn gen_resmap(rng: &mut Rng, nres: usize) -> Vec<RKey> {
    // seeded injection logical -> (type, dynamic id). At least two logical resources map to
    // controller-expressible keys when possible.
    let mut all: Vec<RKey> = Vec::new();
    for ty in 0..8u8 {
        for d in 0..4u64 {
            all.push(RKey { ty, dynid: d });
        }
    }
    rng.shuffle(&mut all);
    let mut m: Vec<RKey> = Vec::new();
    // first choose up to 3 ctl-ok keys
    let mut okk: Vec<RKey> = all.iter().copied().filter(ctl_ok).collect();
    rng.shuffle(&mut okk);
    let nok = (nres.min(3)).min(okk.len());
    for k in okk.into_iter().take(nok) {
        m.push(k);
    }
    for k in all {
        if m.len() >= nres {
            break;
        }
        if !m.contains(&k) {
            m.push(k);
        }
    }
    rng.shuffle(&mut m);
    m
}

fn gen_access(rng: &mut Rng, k: &Knobs) -> (Vec<usize>, Vec<usize>) {
    let mut r = Vec::new();
    let mut w = Vec::new();
    for i in 0..k.nres {
        let mut p = k.density;
        if k.hot == Some(i) {
            p = (p * 3).min(900);
        }
        if rng.chance(p, 1000) {
            if rng.chance(k.wratio, 100) {
                w.push(i);
            } else {
                r.push(i);
            }
        }
    }
    // now and then a system with a very long declared list (mostly reads or mostly writes)
    if k.nres >= 11 && rng.chance(1, 6) {
        let writer = rng.chance(1, 2);
        r.clear();
        w.clear();
        for i in 0..k.nres {
            if rng.chance(4, 5) {
                if writer == rng.chance(9, 10) {
                    w.push(i);
                } else {
                    r.push(i);
                }
            }
        }
    }
    // occasionally list the same resource twice / in both lists (legal declarations)
    if !r.is_empty() && rng.chance(1, 12) {
        let x = *rng.pick(&r);
        r.push(x);
    }
    rng.shuffle(&mut r);
    rng.shuffle(&mut w);
    (r, w)
}

fn gen_name(rng: &mut Rng, used: &mut Vec<String>, k: &Knobs) -> String {
    if rng.chance(k.unnamed_p, 100) {
        return String::new();
    }
    loop {
        let base = *rng.pick(&NAME_PARTS);
        let n = format!("{}{}", base, rng.below(1000));
        if !used.contains(&n) {
            used.push(n.clone());
            return n;
        }
    }
}

fn gen_regs(rng: &mut Rng, cfg: &GenCfg, k: &Knobs, resmap: &[RKey], budget: &mut usize, depth: usize, inner: bool) -> Vec<Reg> {
    let mut regs = Vec::new();
    let mut names: Vec<String> = Vec::new();
    let mut named_since_start: Vec<String> = Vec::new();
    // now and then a builder holds no ordinary system at all (only thread-local ones / barriers)
    let n_here = if rng.chance(1, 25) { 0 } else if inner { 1 + rng.below(5) as usize } else { *budget };
    let mut placed = 0;
    if cfg.allow_barrier && rng.chance(k.barrier_p / 3 + 1, 100) {
        regs.push(Reg::Barrier); // leading barrier
    }
    while placed < n_here && *budget > 0 {
        if cfg.allow_barrier && rng.chance(k.barrier_p, 100) {
            regs.push(Reg::Barrier);
            if rng.chance(1, 5) {
                regs.push(Reg::Barrier); // doubled
            }
        }
        let hint = 1 + rng.below(5) as u8;
        let mut deps: Vec<String> = Vec::new();
        if cfg.allow_deps && !named_since_start.is_empty() && rng.chance(k.dep_p, 100) {
            let nd = 1 + rng.below(3) as usize;
            for _ in 0..nd {
                // bias towards recent systems (same stage candidates) but allow any earlier one,
                // including pre-barrier ones and repeats
                let idx = if rng.chance(1, 2) {
                    named_since_start.len() - 1 - (rng.below(named_since_start.len().min(3) as u64) as usize)
                } else {
                    rng.below(named_since_start.len() as u64) as usize
                };
                deps.push(named_since_start[idx].clone());
            }
            if rng.chance(9, 10) {
                deps.sort();
                deps.dedup();
                rng.shuffle(&mut deps);
            }
        }
        if cfg.allow_batch && depth < cfg.max_depth && *budget >= 2 && rng.chance(k.batch_p, 100) {
            let name = gen_name(rng, &mut names, k);
            *budget -= 1;
            let innerv = gen_regs(rng, cfg, k, resmap, budget, depth + 1, true);
            let okres: Vec<usize> = (0..k.nres).filter(|&i| ctl_ok(&resmap[i])).collect();
            let mut ctl_read = None;
            let mut ctl_write = None;
            if !okres.is_empty() {
                match rng.below(4) {
                    0 => {}
                    1 => ctl_read = Some(*rng.pick(&okres)),
                    2 => ctl_write = Some(*rng.pick(&okres)),
                    _ => {
                        ctl_read = Some(*rng.pick(&okres));
                        let w = *rng.pick(&okres);
                        if Some(w) != ctl_read {
                            ctl_write = Some(w);
                        }
                    }
                }
            }
            let times = match rng.below(6) {
                0 => 0,
                1 | 2 | 3 => 1,
                4 => 2,
                _ => 3,
            };
            if !name.is_empty() {
                named_since_start.push(name.clone());
            }
            regs.push(Reg::Batch { name, deps, ctl_read, ctl_write, times, multi: rng.chance(1, 3), hint, inner: innerv });
            placed += 1;
            continue;
        }
        // "filler" burst: one heavy system next to a run of light systems that all conflict on one
        // resource - the shape that makes a group grow to its capacity (a group is joined only by
        // a single-conflict system that improves the balance, and only below four members)
        if k.chain && k.nres >= 2 && *budget >= 7 && rng.chance(1, 6) {
            let x = rng.below(k.nres as u64) as usize;
            let y = (x + 1 + rng.below(k.nres as u64 - 1) as usize) % k.nres;
            let heavy = gen_name(rng, &mut names, k);
            regs.push(Reg::Sys { name: heavy, deps: vec![], reads: vec![], writes: vec![y], hint: 5, expect: false, typed: false });
            let n = 4 + rng.below(3) as usize;
            let bulky = k.nres >= 11 && rng.chance(1, 2);
            // what the bulky members mostly do with the other resources: the first writes and the
            // second reads, or all of them read (read lists spill), or all write (write lists spill)
            let flavour = rng.below(3);
            let first_reads = rng.chance(1, 3);
            for j in 0..n {
                let nm = gen_name(rng, &mut names, k);
                // who reads and who writes the contested resource: usually writers with a reader
                // now and then, sometimes a group that at first only reads it
                let reads_x = if first_reads { j == 0 || (j >= 2 && rng.chance(1, 3)) } else { j % 3 == 2 && rng.chance(1, 2) };
                let (mut reads, mut writes) = if reads_x { (vec![x], vec![]) } else { (vec![], vec![x]) };
                if bulky && j < 3 {
                    // members with long lists of their own: the group's accumulated lists spill
                    let mostly_writes = match flavour {
                        0 => j == 0,
                        1 => false,
                        _ => true,
                    };
                    for i in 0..k.nres {
                        if i != x && i != y && rng.chance(3, 5) {
                            if mostly_writes == rng.chance(9, 10) {
                                writes.push(i);
                            } else {
                                reads.push(i);
                            }
                        }
                    }
                    if j == 1 && rng.chance(1, 2) {
                        // a member that only reads what it conflicts on
                        writes.retain(|&i| i != x);
                        if !reads.contains(&x) {
                            reads.push(x);
                        }
                    }
                    rng.shuffle(&mut reads);
                    rng.shuffle(&mut writes);
                }
                regs.push(Reg::Sys { name: nm, deps: vec![], reads, writes, hint: 1, expect: false, typed: false });
            }
            *budget -= n + 1;
            placed += n + 1;
            continue;
        }
        let name = gen_name(rng, &mut names, k);
        let (mut reads, mut writes) = gen_access(rng, k);
        if k.chain && !regs.is_empty() && rng.chance(2, 3) {
            // conflict chain: write what a recent system touched, so that groups fill up
            if let Some(Reg::Sys { reads: pr, writes: pw, .. }) = regs.iter().rev().find(|r| matches!(r, Reg::Sys { .. })) {
                if let Some(&x) = pw.first().or(pr.first()) {
                    if !writes.contains(&x) {
                        writes.push(x);
                    }
                    reads.retain(|&y| y != x);
                }
            }
        }
        if !name.is_empty() {
            named_since_start.push(name.clone());
        }
        let mut expect = rng.chance(1, 8);
        let mut typed = false;
        let okres: Vec<usize> = (0..k.nres).filter(|&i| ctl_ok(&resmap[i])).collect();
        if rng.chance(1, 7) {
            // library system data: Read<T> / Write<T> / (Read<T>, Write<U>) / ()
            typed = true;
            // one in three of them in the optional forms (Option<Read<T>> / Option<Write<T>>)
            expect = rng.chance(1, 3);
            reads.clear();
            writes.clear();
            if !okres.is_empty() {
                match rng.below(4) {
                    0 => {}
                    1 => reads.push(*rng.pick(&okres)),
                    2 => writes.push(*rng.pick(&okres)),
                    _ => {
                        let r = *rng.pick(&okres);
                        reads.push(r);
                        let w = *rng.pick(&okres);
                        if w != r {
                            writes.push(w);
                        }
                    }
                }
            }
        }
        regs.push(Reg::Sys { name, deps, reads, writes, hint, expect, typed });
        *budget -= 1;
        placed += 1;
    }
    if cfg.allow_tl && (rng.chance(k.tl_p, 100) || (n_here == 0 && rng.chance(2, 3))) {
        let ntl = 1 + rng.below(3) as usize;
        for _ in 0..ntl {
            let (r, w) = if inner { (vec![], vec![]) } else { gen_access(rng, k) };
            // thread-local systems can be registered anywhere; put some in the middle
            let pos = if rng.chance(1, 2) { regs.len() } else { rng.below(regs.len() as u64 + 1) as usize };
            regs.insert(pos, Reg::Tl { reads: r, writes: w });
        }
    }
    if cfg.allow_tl && !inner && depth == 0 && rng.chance(1, 12) {
        // a dispatcher used as a thread-local system (no batches inside, a few systems)
        let mut b2 = 1 + rng.below(4) as usize;
        let c2 = GenCfg { allow_batch: false, ..cfg.clone() };
        let innerv = gen_regs(rng, &c2, k, resmap, &mut b2, 1, true);
        let pos = rng.below(regs.len() as u64 + 1) as usize;
        regs.insert(pos, Reg::TlDisp { inner: innerv });
    }
    if cfg.allow_barrier && rng.chance(k.barrier_p / 3 + 1, 100) {
        regs.push(Reg::Barrier); // trailing
    }
    regs
}

pub fn gen_scenario(seed: u64, cfg: &GenCfg) -> Scenario {
    let mut rng = Rng::sub(seed, 1);
    // mostly few resources (conflicts are frequent); one scenario in four has enough of them for
    // declared lists and accumulated group lists to outgrow their inline capacities (12 reads,
    // 10 writes per group, 6 groups per stage)
    let nres = if rng.chance(1, 4) { 11 + rng.below(14) as usize } else { 1 + rng.below(10) as usize };
    let k = Knobs {
        nres,
        density: [60, 120, 200, 350, 500][rng.below(5) as usize],
        wratio: [10, 30, 50, 70, 100][rng.below(5) as usize],
        hot: if rng.chance(1, 3) { Some(rng.below(nres as u64) as usize) } else { None },
        dep_p: if cfg.allow_deps { [0, 10, 25, 50, 80][rng.below(5) as usize] } else { 0 },
        barrier_p: if cfg.allow_barrier { [0, 0, 5, 12, 30][rng.below(5) as usize] } else { 0 },
        batch_p: if cfg.allow_batch { [0, 0, 8, 15, 30][rng.below(5) as usize] } else { 0 },
        tl_p: if cfg.allow_tl { [0, 20, 50][rng.below(3) as usize] } else { 0 },
        unnamed_p: [0, 10, 30, 60][rng.below(4) as usize],
        chain: rng.chance(1, 3),
    };
    let resmap = gen_resmap(&mut rng, nres);
    let mut budget = if cfg.big { 100 + rng.below(200) as usize } else { 1 + rng.below(cfg.max_sys as u64) as usize };
    let mut regs = gen_regs(&mut rng, cfg, &k, &resmap, &mut budget, 0, false);
    if cfg.max_sys > 8 && rng.chance(1, 30) {
        // a very wide stage: dozens of pairwise compatible systems (readers only) with a few
        // distinct running-time hints, i.e. many groups and many ties among them
        let n = 7 + rng.below(42) as usize;
        let hints: Vec<u8> = (0..1 + rng.below(3)).map(|_| rng.below(6) as u8).collect();
        let unnamed = rng.chance(1, 4);
        let mut burst = Vec::new();
        for i in 0..n {
            let mut reads: Vec<usize> = (0..nres).filter(|_| rng.chance(1, 6)).collect();
            reads.truncate(4);
            burst.push(Reg::Sys {
                name: if unnamed && rng.chance(1, 2) { String::new() } else { format!("wide{}", i) },
                deps: vec![],
                reads,
                writes: vec![],
                hint: *rng.pick(&hints),
                expect: false,
                typed: false,
            });
        }
        if rng.chance(1, 3) {
            burst.push(Reg::Barrier);
        }
        burst.extend(regs);
        regs = burst;
    }
    let present = (0..nres).map(|_| rng.chance(1, 2)).collect();
    let pool = PoolCfg {
        supplied: if rng.chance(1, 2) { Some(1 + rng.below(16) as usize) } else { None },
        machine: 1 + rng.below(16) as usize,
    };
    let ncalls = 1 + rng.below(3) as usize;
    let calls = (0..ncalls)
        .map(|_| match rng.below(8) {
            0..=3 => Call::Dispatch,
            4 | 5 => Call::DispatchPar,
            6 => Call::DispatchSeq,
            _ => Call::DispatchTl,
        })
        .collect();
    let mut present: Vec<bool> = present;
    fix_expect(&regs, &mut present);
    Scenario {
        resmap,
        present,
        regs,
        pool,
        calls,
        faults: vec![],
        fine_points: rng.chance(1, 3),
        hash_seed: rng.next_u64(),
        asyncd: false,
        lifecycle: vec![],
        from_pool: None,
        aops: vec![],
    }
}

/// Resources that only non-creating ("expect") systems declare must exist beforehand.
pub fn fix_expect(regs: &[Reg], present: &mut [bool]) {
    let inf = infos(regs);
    let creating = inf.iter().filter(|i| !i.expect).fold(0u32, |m, i| m | i.rmask | i.wmask);
    let expecting = inf.iter().filter(|i| i.expect).fold(0u32, |m, i| m | i.rmask | i.wmask);
    for (l, p) in present.iter_mut().enumerate() {
        if expecting & (1 << l) != 0 && creating & (1 << l) == 0 {
            *p = true;
        }
    }
}

/// Logical resources that no creating accessor declares (removing one of them cannot be undone
/// by `setup`).
pub fn expect_only_mask(regs: &[Reg]) -> u32 {
    let inf = infos(regs);
    let creating = inf.iter().filter(|i| !i.expect).fold(0u32, |m, i| m | i.rmask | i.wmask);
    let expecting = inf.iter().filter(|i| i.expect).fold(0u32, |m, i| m | i.rmask | i.wmask);
    expecting & !creating
}

pub fn count_systems(regs: &[Reg]) -> usize {
    regs.iter()
        .map(|r| match r {
            Reg::Barrier => 0,
            Reg::Batch { inner, .. } | Reg::TlDisp { inner } => 1 + count_systems(inner),
            _ => 1,
        })
        .sum()
}

/// FNV-1a digest used for "distinct" counters.
pub fn fnv(bytes: &[u8]) -> u64 {
    let mut h = 0xcbf2_9ce4_8422_2325u64;
    for b in bytes {
        h ^= *b as u64;
        h = h.wrapping_mul(0x0000_0100_0000_01b3);
    }
    h
}
