//! C16: Par/Seq trees assembled at run time from the real `Par` / `Seq` nodes
//! (a boxing adapter implements `RunWithPool` by delegation), dispatched under
//! the scheduler from outside and from inside the pool.

use std::panic::{catch_unwind, AssertUnwindSafe};
use std::sync::atomic::Ordering;
use std::sync::Arc;

use detsim::Rng;
use serde::{Deserialize, Serialize};
use serde_json::json;
use shred::{Par, ParSeq, ResourceId, RunWithPool, Seq, World};

use crate::build::{reset_states, Layout};
use crate::dfamily::{EvalOut, Replay, Stats};
use crate::oracle::{check_isolation, history, Violation};
use crate::plan::{conf, gen_resmap, mask, FaultKind, Kind, SysInfo};
use crate::res::{Core, RKey};
use crate::run::{interleaving_digest, log_digest, make_strategy, probe_all, StratSpec, MAX_STEPS};
use crate::sys::*;

#[derive(Clone, Debug, Serialize, Deserialize, PartialEq)]
pub enum Tree {
    Leaf { reads: Vec<usize>, writes: Vec<usize> },
    Par(Vec<Tree>),
    Seq(Vec<Tree>),
}

#[derive(Clone, Debug, Serialize, Deserialize, PartialEq)]
pub struct PScen {
    pub resmap: Vec<RKey>,
    pub tree: Tree,
    pub pool: usize,
    /// call dispatch from inside `pool.install`
    pub inside: bool,
    pub ncalls: usize,
    pub fine_points: bool,
    /// leaf (index modulo the number of leaves) that panics in the first dispatch, and where
    /// (0 before fetching, 1 inside its window, 2 after releasing); the caller catches it
    #[serde(default)]
    pub panic: Option<(usize, u8)>,
    /// 0: the tree is assembled at run time through the boxing adapter; 1: the same description,
    /// built as ONE static type with the library's own `par!` / `seq!` macros (no boxes between
    /// the nodes, so whatever the node types call on each other is really called)
    #[serde(default)]
    pub static_shape: u8,
}

struct BoxNode(Box<dyn for<'a> RunWithPool<'a> + Send>);

impl<'a> RunWithPool<'a> for BoxNode {
    fn setup(&mut self, world: &mut World) {
        self.0.setup(world)
    }
    fn run(&mut self, world: &'a World, pool: &rayon::ThreadPool) {
        self.0.run(world, pool)
    }
    fn reads(&self, reads: &mut Vec<ResourceId>) {
        self.0.reads(reads)
    }
    fn writes(&self, writes: &mut Vec<ResourceId>) {
        self.0.writes(writes)
    }
}

fn gen_tree(rng: &mut Rng, depth: usize, nres: usize, wratio: u64, budget: &mut usize) -> Tree {
    if depth == 0 || *budget <= 1 || rng.chance(1, 3) {
        *budget = budget.saturating_sub(1);
        let mut reads = Vec::new();
        let mut writes = Vec::new();
        for i in 0..nres {
            if rng.chance(1, 4) {
                if rng.chance(wratio, 100) {
                    writes.push(i);
                } else {
                    reads.push(i);
                }
            }
        }
        return Tree::Leaf { reads, writes };
    }
    let n = 1 + rng.below(6) as usize;
    let kids: Vec<Tree> = (0..n).map(|_| gen_tree(rng, depth - 1, nres, wratio, budget)).collect();
    if rng.chance(1, 2) { Tree::Par(kids) } else { Tree::Seq(kids) }
}

pub fn gen(seed: u64) -> PScen {
    let mut sc = gen_plain(seed);
    let mut rng = Rng::sub(seed, 37);
    if rng.chance(1, 6) {
        // the first dispatch is left by a panic of one leaf (caught): the following dispatches
        // must run every leaf once again
        sc.panic = Some((rng.below(64) as usize, rng.below(3) as u8));
        sc.ncalls = 2 + rng.below(2) as usize;
    }
    if rng.chance(1, 25) {
        // the static long tree: par![side, seq![six!(six!(leaf)) x 3]] = 1 + 108 read-only leaves
        let nres = sc.resmap.len();
        let mut leaf = || Tree::Leaf { reads: (0..nres).filter(|_| rng.chance(1, 5)).collect(), writes: vec![] };
        let side = leaf();
        let big = Tree::Seq((0..3).map(|_| Tree::Seq((0..6).map(|_| Tree::Seq((0..6).map(|_| leaf()).collect())).collect())).collect());
        sc.tree = Tree::Par(vec![side, big]);
        sc.static_shape = 1;
        sc.ncalls = 1;
        sc.panic = None;
        return sc;
    }
    if rng.chance(1, 25) {
        // a long tree: a par node one of whose children is a deeply nested seq of 90..220
        // read-only leaves (fan-out at most 6 everywhere)
        let nres = sc.resmap.len();
        let n = 90 + rng.below(131) as usize;
        // mostly readers; a writer now and then, so that some of these trees must be rejected
        let mut level: Vec<Tree> = (0..n)
            .map(|_| {
                let w = if rng.chance(1, 40) { vec![rng.below(nres as u64) as usize] } else { vec![] };
                Tree::Leaf { reads: (0..nres).filter(|i| rng.chance(1, 5) && !w.contains(i)).collect(), writes: w }
            })
            .collect();
        while level.len() > 1 {
            let mut next = Vec::new();
            let mut it = level.into_iter().peekable();
            while it.peek().is_some() {
                let k = 2 + rng.below(5) as usize;
                let kids: Vec<Tree> = it.by_ref().take(k).collect();
                next.push(if kids.len() == 1 { kids.into_iter().next().unwrap() } else { Tree::Seq(kids) });
            }
            level = next;
        }
        let big = level.pop().unwrap();
        let sw = if rng.chance(1, 4) { vec![rng.below(nres as u64) as usize] } else { vec![] };
        let side = Tree::Leaf { reads: (0..nres).filter(|i| rng.chance(1, 3) && !sw.contains(i)).collect(), writes: sw };
        sc.tree = if rng.chance(1, 2) { Tree::Par(vec![side, big]) } else { Tree::Seq(vec![Tree::Par(vec![big, side]), Tree::Leaf { reads: vec![], writes: vec![0] }]) };
        sc.ncalls = 1;
        sc.panic = None;
    }
    sc
}

fn gen_plain(seed: u64) -> PScen {
    let mut rng = Rng::sub(seed, 31);
    let nres = 2 + rng.below(9) as usize;
    let wratio = *rng.pick(&[5u64, 15, 30, 50]);
    let mut budget = 2 + rng.below(24) as usize;
    let depth = 1 + rng.below(5) as usize;
    let tree = gen_tree(&mut rng, depth, nres, wratio, &mut budget);
    PScen {
        resmap: gen_resmap(&mut rng, nres),
        tree,
        pool: 1 + rng.below(16) as usize,
        inside: rng.chance(1, 3),
        ncalls: 1 + rng.below(2) as usize,
        fine_points: rng.chance(1, 3),
        panic: None,
        static_shape: 0,
    }
}

/// leaves in depth-first order: (reads mask, writes mask)
fn leaves(t: &Tree, out: &mut Vec<(Vec<usize>, Vec<usize>)>) {
    match t {
        Tree::Leaf { reads, writes } => out.push((reads.clone(), writes.clone())),
        Tree::Par(k) | Tree::Seq(k) => k.iter().for_each(|c| leaves(c, out)),
    }
}

fn masks(t: &Tree) -> (u32, u32) {
    match t {
        Tree::Leaf { reads, writes } => (mask(reads), mask(writes)),
        Tree::Par(k) | Tree::Seq(k) => k.iter().map(masks).fold((0, 0), |a, b| (a.0 | b.0, a.1 | b.1)),
    }
}

/// Does the debug-time check of some `Par::with` have to fire? (new child against the
/// union of the children already in the node)
fn par_conflict(t: &Tree) -> bool {
    match t {
        Tree::Leaf { .. } => false,
        Tree::Seq(k) => k.iter().any(par_conflict),
        Tree::Par(k) => {
            if k.iter().any(par_conflict) {
                return true;
            }
            let mut acc = (0u32, 0u32);
            for (i, c) in k.iter().enumerate() {
                let m = masks(c);
                if i > 0 && conf(acc.0, acc.1, m.0, m.1) {
                    return true;
                }
                acc = (acc.0 | m.0, acc.1 | m.1);
            }
            false
        }
    }
}

/// Static shape 1 (see `PScen::static_shape`); leaves in depth-first order.
fn build_static_1(ctx: &Arc<Ctx>, lv: &[(Vec<usize>, Vec<usize>)]) -> BoxNode {
    let mut next = 0usize;
    let mut leaf = || {
        let (r, w) = &lv[next];
        let s = DynSys::new(ctx, next, r, w, 3);
        next += 1;
        s
    };
    macro_rules! six {
        ($e:expr) => {
            shred::seq![$e, $e, $e, $e, $e, $e,]
        };
    }
    let side = leaf();
    let big = shred::seq![six!(six!(leaf())), six!(six!(leaf())), six!(six!(leaf())),];
    BoxNode(Box::new(shred::par![side, big,]))
}

fn build_node(ctx: &Arc<Ctx>, t: &Tree, next: &mut usize) -> BoxNode {
    match t {
        Tree::Leaf { reads, writes } => {
            let sid = *next;
            *next += 1;
            let mut s = DynSys::new(ctx, sid, reads, writes, 3);
            if sid % 3 == 2 {
                // this leaf leaves `System::setup` to the library's default
                s.acc.default_setup = true;
                BoxNode(Box::new(crate::sys::DynSysDefaultSetup(s)))
            } else {
                BoxNode(Box::new(s))
            }
        }
        Tree::Par(k) => {
            let mut it = k.iter();
            let first = build_node(ctx, it.next().expect("non-empty node"), next);
            let mut cur = BoxNode(Box::new(Par::new(first)));
            for c in it {
                let child = build_node(ctx, c, next);
                cur = BoxNode(Box::new(Par::new(cur).with(child)));
            }
            cur
        }
        Tree::Seq(k) => {
            let mut it = k.iter();
            let first = build_node(ctx, it.next().expect("non-empty node"), next);
            let mut cur = BoxNode(Box::new(Seq::new(first)));
            for c in it {
                let child = build_node(ctx, c, next);
                cur = BoxNode(Box::new(Seq::new(cur).with(child)));
            }
            cur
        }
    }
}

fn vio(class: &str, msg: String) -> Violation {
    Violation { prop: "C16".into(), class: class.into(), msg }
}

/// seq constraints: (a, b) = leaf a must have ended before leaf b enters
fn seq_pairs(t: &Tree, next: &mut usize, out: &mut Vec<(usize, usize)>) -> Vec<usize> {
    match t {
        Tree::Leaf { .. } => {
            let s = *next;
            *next += 1;
            vec![s]
        }
        Tree::Par(k) => k.iter().flat_map(|c| seq_pairs(c, next, out)).collect(),
        Tree::Seq(k) => {
            let mut all: Vec<usize> = Vec::new();
            for c in k {
                let ls = seq_pairs(c, next, out);
                for &a in &all {
                    for &b in &ls {
                        out.push((a, b));
                    }
                }
                all.extend(ls);
            }
            all
        }
    }
}

pub struct POut {
    pub violations: Vec<Violation>,
    pub trace: Vec<u32>,
    pub steps: u64,
    pub switches: u64,
    pub digest: u64,
    pub inter: u64,
    pub overlap: u64,
    pub rejected: bool,
    pub nleaves: usize,
}

pub fn run_scen(sc: &PScen, strat: &StratSpec, seed: u64, replay: Option<Vec<u32>>) -> POut {
    let mut lv = Vec::new();
    leaves(&sc.tree, &mut lv);
    let infos: Vec<SysInfo> = lv
        .iter()
        .enumerate()
        .map(|(i, (r, w))| SysInfo {
            sid: i,
            parent: None,
            depth: 0,
            kind: Kind::Sys,
            name: String::new(),
            deps: vec![],
            epoch: 0,
            rmask: mask(r),
            wmask: mask(w),
            urmask: mask(r),
            uwmask: mask(w),
            hint: 3,
            times: 0,
            multi: false,
            reg_index: i,
            expect: false,
            container: false,
        })
        .collect();
    let ctx = Ctx::new(infos, sc.resmap.clone());
    ctx.fine.store(sc.fine_points, Ordering::SeqCst);
    let mut out = Vec::new();
    rayon::set_machine_size(16);
    let must_reject = par_conflict(&sc.tree);
    let mut next = 0;
    let built = catch_unwind(AssertUnwindSafe(|| if sc.static_shape == 1 && lv.len() == 109 { build_static_1(&ctx, &lv) } else { build_node(&ctx, &sc.tree, &mut next) }));
    let nleaves = lv.len();
    let mk = |vs: Vec<Violation>, rejected: bool| POut { violations: vs, trace: vec![], steps: 0, switches: 0, digest: 0, inter: 0, overlap: 0, rejected, nleaves };
    let root = match (built, must_reject) {
        (Err(p), true) => {
            let m = crate::util::payload_string(&p);
            // (the wording of the rejection is the implementation's business)
            let _ = m;
            return mk(out, true);
        }
        (Err(p), false) => {
            out.push(vio(
                "par-rejected-compatible-child",
                format!("Par::with panicked ({}) although no child conflicts with the children already in its node", crate::util::payload_string(&p).lines().next().unwrap_or("")),
            ));
            return mk(out, true);
        }
        (Ok(_), true) => {
            out.push(vio("par-accepted-conflicting-child", "with debug assertions enabled a child whose access conflicts with the children already in the par node was added without a panic".to_string()));
            return mk(out, false);
        }
        (Ok(r), false) => r,
    };
    // reads / writes of the root are the union of the leaves'
    let mut rr = Vec::new();
    let mut ww = Vec::new();
    root.reads(&mut rr);
    root.writes(&mut ww);
    let want = |sel: fn(&(Vec<usize>, Vec<usize>)) -> &Vec<usize>| {
        let mut v: Vec<ResourceId> = lv.iter().flat_map(|l| sel(l).iter().map(|&i| sc.resmap[i].rid())).collect();
        v.sort();
        v.dedup();
        v
    };
    let norm = |mut v: Vec<ResourceId>| {
        v.sort();
        v.dedup();
        v
    };
    if norm(rr) != want(|l| &l.0) {
        out.push(vio("reads-union", "the reads reported by the root are not the union of its leaves' reads".into()));
    }
    if norm(ww) != want(|l| &l.1) {
        out.push(vio("writes-union", "the writes reported by the root are not the union of its leaves' writes".into()));
    }
    let pool = Arc::new(rayon::ThreadPoolBuilder::new().num_threads(sc.pool).build().expect("pool"));
    let mut world = World::empty();
    let mut ps = ParSeq::new(root, pool.clone());
    ps.setup(&mut world);
    for i in 0..nleaves {
        let n = ctx.states[i].setup.load(Ordering::SeqCst);
        if n != 1 {
            out.push(vio("setup-count", format!("leaf {} had its System::setup called {} time(s) by ParSeq::setup", i, n)));
        }
    }
    for (l, k) in sc.resmap.iter().enumerate() {
        if !world.has_value_raw(k.rid()) {
            (k.vt().insert)(&mut world, k.dynid, Core { v: 40 + l as u64, ca: 0, cb: 0 });
        }
    }
    reset_states(&ctx);
    let armed = match sc.panic {
        Some((l, k)) if nleaves > 0 => {
            let kind = [FaultKind::PanicBefore, FaultKind::PanicMid, FaultKind::PanicAfter][k as usize % 3];
            ctx.directives.lock().unwrap()[l % nleaves].push(crate::sys::Directive { call: 0, kind, arg: 0 });
            Some(l % nleaves)
        }
        _ => None,
    };
    let lay = Layout { pos: vec![None; nleaves], ..Default::default() };
    let cfg = detsim::Config { seed, strategy: make_strategy(strat, seed, &ctx, &lay), replay, max_steps: MAX_STEPS };
    let mut runs_after: Vec<Vec<u64>> = Vec::new();
    let mut panics: Vec<Option<String>> = Vec::new();
    let world_ref = &world;
    let rep = detsim::run(cfg, || {
        detsim::set_info(PH_CALLER);
        for ci in 0..sc.ncalls {
            let inst = ctx.next_inst.fetch_add(1, Ordering::SeqCst);
            ctx.top_inst.store(inst, Ordering::SeqCst);
            ctx.cur_call.store(ci, Ordering::SeqCst);
            ctx.emit(Ev::CallBegin, usize::MAX, ci as u64);
            let r = if sc.inside {
                let p = SendPtr(&mut ps as *mut ParSeq<Arc<rayon::ThreadPool>, BoxNode>);
                catch_unwind(AssertUnwindSafe(|| {
                    pool.install(move || {
                        let p = p;
                        // SAFETY: install blocks the caller until the closure has returned
                        unsafe { (*p.0).dispatch(world_ref) }
                    })
                }))
            } else {
                catch_unwind(AssertUnwindSafe(|| ps.dispatch(world_ref)))
            };
            panics.push(r.err().map(|p| crate::util::payload_string(&p)));
            ctx.emit(Ev::CallEnd, usize::MAX, ci as u64);
            runs_after.push(ctx.states.iter().map(|s| s.run.load(Ordering::SeqCst)).collect());
            detsim::yield_with_info(PH_CALLER);
        }
    });
    let events = std::mem::take(&mut *ctx.events.lock().unwrap());
    let h = history(&events, &ctx.infos);
    let overlap = check_isolation(&h, &ctx.infos, &mut out);
    for v in out.iter_mut() {
        if v.prop != "C16" {
            v.class = format!("{}-{}", v.prop.to_lowercase(), v.class);
            v.prop = "C16".into();
        }
    }
    // exactly once per dispatch
    for (ci, r) in runs_after.iter().enumerate() {
        if ci == 0 && armed.is_some() {
            // the dispatch in which a leaf panicked: what is claimed is about the next ones
            continue;
        }
        if let Some(p) = &panics[ci] {
            out.push(vio("dispatch-panicked", format!("dispatch #{} of a conflict-free tree panicked although no leaf did: {}", ci, p.lines().next().unwrap_or(""))));
            continue;
        }
        for i in 0..nleaves {
            let prev = if ci == 0 { 0 } else { runs_after[ci - 1][i] };
            if r[i] - prev != 1 {
                out.push(vio(if r[i] - prev == 0 { "leaf-skipped" } else { "leaf-ran-twice" }, format!("dispatch #{}: leaf {} ran {} time(s) (pool of {} thread(s), called from inside the pool: {})", ci, i, r[i] - prev, sc.pool, sc.inside)));
            }
        }
    }
    // seq order
    let mut pairs = Vec::new();
    let mut n2 = 0;
    seq_pairs(&sc.tree, &mut n2, &mut pairs);
    for idx in h.by_inst.values() {
        for &(a, b) in &pairs {
            let oa = idx.iter().map(|&i| &h.occs[i]).find(|o| o.sid == a);
            let ob = idx.iter().map(|&i| &h.occs[i]).find(|o| o.sid == b);
            if let (Some(oa), Some(ob)) = (oa, ob) {
                if !(oa.end < ob.enter) {
                    out.push(vio("seq-order", format!("leaf {} belongs to an earlier child of a seq node than leaf {}, but it ended at {} and the later one entered at {}", a, b, oa.end, ob.enter)));
                }
            }
        }
    }
    let cells = probe_all(&ctx, &world);
    if cells.iter().any(|c| matches!(c, crate::res::Cell::Shared | crate::res::Cell::Excl)) {
        out.push(vio("leaked-borrow", "a resource is still borrowed after dispatch returned".into()));
    }
    if !matches!(rep.outcome, detsim::Outcome::Done) {
        out.push(Violation { prop: "HARNESS".into(), class: "outcome".into(), msg: format!("{:?}", rep.outcome) });
    }
    for e in &rep.escaped_panics {
        out.push(Violation { prop: "HARNESS".into(), class: "escaped-panic".into(), msg: e.clone() });
    }
    POut { violations: out, trace: rep.trace, steps: rep.steps, switches: rep.switches, digest: log_digest(&events), inter: interleaving_digest(&events), overlap, rejected: false, nleaves }
}

struct SendPtr<T>(*mut T);
unsafe impl<T> Send for SendPtr<T> {}

pub fn explore(seed: u64, thorough: bool, st: &mut Stats) -> Vec<Replay> {
    let sc = gen(seed);
    st.scenarios += 1;
    if st.seeds == 0 {
        st.first_seed = seed;
    }
    st.seeds += 1;
    let mut rng = Rng::sub(seed, 32);
    let mut found: Vec<Replay> = Vec::new();
    let mut lv = Vec::new();
    leaves(&sc.tree, &mut lv);
    let mut plan: Vec<StratSpec> = vec![StratSpec::MaxOverlap];
    let mut holds: Vec<usize> = (0..lv.len()).collect();
    let cap = if thorough { 24 } else { 6 };
    if holds.len() > cap {
        rng.shuffle(&mut holds);
        holds.truncate(cap);
    }
    plan.extend(holds.into_iter().map(StratSpec::Hold));
    plan.push(StratSpec::Random);
    plan.push(StratSpec::Pct(2));
    let shape = crate::plan::fnv(serde_json::to_string(&sc.tree).unwrap().as_bytes());
    st.layouts.insert(shape);
    if st.samples.len() < 2 {
        st.samples.push(json!({"seed": seed, "tree": sc.tree, "pool": sc.pool, "dispatch_from_inside_pool": sc.inside}));
    }
    for strat in plan {
        let rs = rng.next_u64();
        let o = run_scen(&sc, &strat, rs, None);
        crate::driver::chain(o.digest);
        st.runs += 1;
        st.steps += o.steps;
        st.switches += o.switches;
        st.inters.insert(o.inter);
        st.overlap_pairs += o.overlap;
        if o.rejected {
            Stats::bump(&mut st.probes, "par_with_rejected_conflicting_child", 1);
            st.nontrivial.insert(shape);
        } else if o.overlap > 0 {
            st.nontrivial.insert(crate::res::mix(shape, o.inter));
        }
        if sc.inside {
            Stats::bump(&mut st.probes, "dispatch_from_inside_pool", 1);
        }
        if sc.pool == 1 {
            Stats::bump(&mut st.probes, "one_thread_pool", 1);
        }
        if let StratSpec::Hold(_) = strat {
            Stats::bump(&mut st.faults, "hold_stall", 1);
        }
        for v in &o.violations {
            if v.prop == "C16" {
                Stats::bump(&mut st.class_hits, &v.class, 1);
                if !found.iter().any(|r| r.class == v.class) {
                    found.push(Replay {
                        property: "C16".into(),
                        family: "P".into(),
                        engine: "S".into(),
                        mode: "run".into(),
                        seed,
                        scenario: serde_json::to_value(&sc).unwrap(),
                        strategy: strat.clone(),
                        run_seed: rs,
                        trace: Some(o.trace.clone()),
                        class: v.class.clone(),
                        msg: v.msg.clone(),
                        digest: o.digest,
                    });
                }
            } else {
                Stats::bump(&mut st.other_prop, &v.prop, 1);
            }
        }
        if o.rejected {
            break; // construction is schedule-independent
        }
    }
    found
}

pub fn eval_replay(r: &Replay) -> EvalOut {
    let sc: PScen = serde_json::from_value(r.scenario.clone()).expect("scenario");
    let o = run_scen(&sc, &r.strategy, r.run_seed, r.trace.clone());
    EvalOut { violations: o.violations, digest: o.digest, trace: o.trace, steps: o.steps }
}
