//! Harness resources: 8 concrete types of different size and alignment, each
//! carrying the same `Core` (value + two canary words), reachable through a
//! type-erased table so that a *logical* resource can be mapped to any
//! (type, dynamic id) pair by the scenario.

use serde::{Deserialize, Serialize};
use shred::{Fetch, FetchMut, ResourceId, World};

#[derive(Clone, Copy, Debug, Default, PartialEq, Eq, Serialize, Deserialize)]
pub struct Core {
    pub v: u64,
    pub ca: u64,
    pub cb: u64,
}

pub trait HRes: Default + Send + Sync + 'static {
    const TAG: u8;
    fn core(&self) -> &Core;
    fn core_mut(&mut self) -> &mut Core;
}

macro_rules! def_res {
    ($name:ident, $tag:expr, $align:expr, $pad:expr) => {
        #[repr(align($align))]
        pub struct $name {
            pub pad0: [u8; $pad],
            pub core: Core,
            pub pad1: [u8; $pad],
        }
        impl Default for $name {
            fn default() -> Self {
                $name { pad0: [0xA5; $pad], core: Core::default(), pad1: [0x5A; $pad] }
            }
        }
        impl HRes for $name {
            const TAG: u8 = $tag;
            fn core(&self) -> &Core {
                &self.core
            }
            fn core_mut(&mut self) -> &mut Core {
                &mut self.core
            }
        }
    };
}

def_res!(R0, 0, 8, 0);
def_res!(R1, 1, 8, 1);
def_res!(R2, 2, 16, 3);
def_res!(R3, 3, 8, 17);
def_res!(R4, 4, 32, 5);
def_res!(R5, 5, 8, 64);
def_res!(R6, 6, 64, 2);
def_res!(R7, 7, 8, 129);

pub const NTYPES: u8 = 8;

/// Concrete identity of a logical resource.
#[derive(Clone, Copy, Debug, PartialEq, Eq, Hash, PartialOrd, Ord, Serialize, Deserialize)]
pub struct RKey {
    pub ty: u8,
    pub dynid: u64,
}

pub trait RG {
    fn core(&self) -> &Core;
}
pub trait WG {
    fn core(&self) -> &Core;
    fn core_mut(&mut self) -> &mut Core;
}

impl<'a, T: HRes> RG for Fetch<'a, T> {
    fn core(&self) -> &Core {
        HRes::core(&**self)
    }
}
impl<'a, T: HRes> WG for FetchMut<'a, T> {
    fn core(&self) -> &Core {
        HRes::core(&**self)
    }
    fn core_mut(&mut self) -> &mut Core {
        HRes::core_mut(&mut **self)
    }
}

pub struct ResVt {
    pub rid: fn(u64) -> ResourceId,
    pub insert: fn(&mut World, u64, Core),
    pub remove: fn(&mut World, u64) -> Option<Core>,
    pub fetch_r: for<'a> fn(&'a World, u64) -> Option<Box<dyn RG + 'a>>,
    pub fetch_w: for<'a> fn(&'a World, u64) -> Option<Box<dyn WG + 'a>>,
    pub get: fn(&mut World, u64) -> Option<Core>,
    pub set: fn(&mut World, u64, Core) -> bool,
}

fn rid_of<T: HRes>(d: u64) -> ResourceId {
    ResourceId::new_with_dynamic_id::<T>(d)
}
fn insert_of<T: HRes>(w: &mut World, d: u64, c: Core) {
    let mut v = T::default();
    *v.core_mut() = c;
    w.insert_by_id(rid_of::<T>(d), v);
}
fn remove_of<T: HRes>(w: &mut World, d: u64) -> Option<Core> {
    w.remove_by_id::<T>(rid_of::<T>(d)).map(|v| *v.core())
}
fn fetch_r_of<'a, T: HRes>(w: &'a World, d: u64) -> Option<Box<dyn RG + 'a>> {
    w.try_fetch_by_id::<T>(rid_of::<T>(d)).map(|g| Box::new(g) as Box<dyn RG + 'a>)
}
fn fetch_w_of<'a, T: HRes>(w: &'a World, d: u64) -> Option<Box<dyn WG + 'a>> {
    w.try_fetch_mut_by_id::<T>(rid_of::<T>(d)).map(|g| Box::new(g) as Box<dyn WG + 'a>)
}
fn get_of<T: HRes>(w: &mut World, d: u64) -> Option<Core> {
    let id = rid_of::<T>(d);
    if !w.has_value_raw(id.clone()) {
        return None;
    }
    let g = w.try_fetch_by_id::<T>(id)?;
    Some(*HRes::core(&*g))
}
fn set_of<T: HRes>(w: &mut World, d: u64, c: Core) -> bool {
    let id = rid_of::<T>(d);
    match w.try_fetch_mut_by_id::<T>(id) {
        Some(mut g) => {
            *HRes::core_mut(&mut *g) = c;
            true
        }
        None => false,
    }
}

macro_rules! vt {
    ($t:ty) => {
        ResVt {
            rid: rid_of::<$t>,
            insert: insert_of::<$t>,
            remove: remove_of::<$t>,
            fetch_r: fetch_r_of::<$t>,
            fetch_w: fetch_w_of::<$t>,
            get: get_of::<$t>,
            set: set_of::<$t>,
        }
    };
}

pub static VT: [ResVt; 8] = [vt!(R0), vt!(R1), vt!(R2), vt!(R3), vt!(R4), vt!(R5), vt!(R6), vt!(R7)];

impl RKey {
    pub fn rid(&self) -> ResourceId {
        (VT[self.ty as usize].rid)(self.dynid)
    }
    pub fn vt(&self) -> &'static ResVt {
        &VT[self.ty as usize]
    }
}

#[derive(Clone, Copy, Debug, PartialEq, Eq, Serialize, Deserialize)]
pub enum Cell {
    Absent,
    Free,
    Shared,
    Excl,
    /// probing the borrow flag itself panicked (a flag that has under- or overflowed)
    Corrupt,
}

/// Classify the borrow state of a cell through the public `try_fetch_internal`.
/// Soundness rule: only call while no other thread is executing (under the
/// baton / at quiescence); a concurrent probe could make a legitimate
/// `fetch_mut` fail.
pub fn probe_cell(w: &World, k: RKey) -> Cell {
    // SAFETY: we only look at the borrow flag and never replace the box.
    let cell = unsafe { w.try_fetch_internal(k.rid()) };
    match cell {
        None => Cell::Absent,
        Some(c) => classify_cell(c),
    }
}

/// The borrow state of one cell. A probe that panics (atomic_refcell's overflow checks fire on a
/// flag that was released more often than acquired) is a state of its own, never a harness error.
pub fn classify_cell<T: ?Sized>(c: &shred::cell::AtomicRefCell<T>) -> Cell {
    std::panic::catch_unwind(std::panic::AssertUnwindSafe(|| {
        if let Ok(g) = c.try_borrow_mut() {
            drop(g);
            Cell::Free
        } else if let Ok(g) = c.try_borrow() {
            drop(g);
            Cell::Shared
        } else {
            Cell::Excl
        }
    }))
    .unwrap_or(Cell::Corrupt)
}

pub fn mix(a: u64, b: u64) -> u64 {
    // non-commutative, order sensitive
    let mut x = a.rotate_left(13) ^ b.wrapping_mul(0x9E37_79B9_7F4A_7C15);
    x ^= x >> 29;
    x = x.wrapping_mul(0xBF58_476D_1CE4_E5B9);
    x ^ (x >> 32)
}

// ------------------------------------------------------------------------------------------------
// Trait object side (meta table): every harness resource is an `HObj`.

pub trait HObj {
    fn hcore(&self) -> &Core;
    fn hcore_mut(&mut self) -> &mut Core;
    fn htag(&self) -> u8;
    fn haddr(&self) -> usize;
}

macro_rules! hobj {
    ($($t:ident),*) => { $(
        impl HObj for $t {
            fn hcore(&self) -> &Core { &self.core }
            fn hcore_mut(&mut self) -> &mut Core { &mut self.core }
            fn htag(&self) -> u8 { <$t as HRes>::TAG }
            fn haddr(&self) -> usize { self as *const $t as usize }
        }
    )* };
}
hobj!(R0, R1, R2, R3, R4, R5, R6, R7);

unsafe impl<T: HObj + 'static> shred::CastFrom<T> for dyn HObj {
    fn cast(t: *mut T) -> *mut Self {
        t
    }
}

/// A deliberately wrong cast (changes the address): the library must reject it by a panic.
pub trait BadObj {
    fn btag(&self) -> u8;
}
macro_rules! badobj {
    ($($t:ident),*) => { $( impl BadObj for $t { fn btag(&self) -> u8 { <$t as HRes>::TAG } } )* };
}
badobj!(R0, R1, R2, R3, R4, R5, R6, R7);

unsafe impl<T: BadObj + 'static> shred::CastFrom<T> for dyn BadObj {
    fn cast(t: *mut T) -> *mut Self {
        // off by one element: not the object that was passed in
        t.wrapping_add(1)
    }
}
