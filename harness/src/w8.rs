//! Engine W for C08 (world borrows) and C17 (meta table): 1..4 client tasks
//! under detsim execute generated operations on one shared `World` /
//! `MetaTable`, checked operation by operation against a reference borrow
//! model (per resource: free / shared(n) / exclusive, and who holds what) and a
//! reference registration list.

use std::panic::{catch_unwind, AssertUnwindSafe};
use std::sync::atomic::{AtomicUsize, Ordering};
use std::sync::{Arc, Mutex};

use detsim::Rng;
use serde::{Deserialize, Serialize};
use serde_json::json;
use shred::cell::{AtomicRef, AtomicRefMut};
use shred::{Fetch, FetchMut, MetaIter, MetaIterMut, MetaTable, Read, Resource, World, Write};

use crate::dfamily::{EvalOut, Replay, Stats};
use crate::oracle::Violation;
use crate::plan::gen_resmap;
use crate::res::*;
use crate::run::{make_strategy_plain, StratSpec, MAX_STEPS};

macro_rules! with_r {
    ($t:expr, $T:ident => $body:expr) => {
        match $t {
            0 => { type $T = R0; $body }
            1 => { type $T = R1; $body }
            2 => { type $T = R2; $body }
            3 => { type $T = R3; $body }
            4 => { type $T = R4; $body }
            5 => { type $T = R5; $body }
            6 => { type $T = R6; $body }
            _ => { type $T = R7; $body }
        }
    };
}

#[derive(Clone, Copy, Debug, Serialize, Deserialize, PartialEq)]
pub enum How {
    Fetch,
    Try,
    ById,
    SysData,
    SysDataOpt,
}

#[derive(Clone, Copy, Debug, Serialize, Deserialize, PartialEq)]
pub enum Op {
    /// acquire a guard on logical resource l
    Acquire { l: usize, excl: bool, how: How },
    Clone { g: usize },
    Drop { g: usize },
    Read { g: usize },
    Write { g: usize },
    IterNew { excl: bool },
    IterNext { it: usize },
    /// `Iterator::nth(n)`: n items are borrowed and released on the way
    IterNth { it: usize, n: usize },
    IterDrop { it: usize },
    /// `MetaTable::get` / `get_mut` on the reference behind guard g
    MetaGet { g: usize },
    /// the address-changing cast must be rejected
    BadGet { g: usize },
    /// unwind through every guard this task holds
    PanicNow,
    Yield,
}

#[derive(Clone, Debug, Serialize, Deserialize, PartialEq)]
pub struct TOp {
    pub t: usize,
    pub op: Op,
}

#[derive(Clone, Debug, Serialize, Deserialize, PartialEq)]
pub struct Scen {
    pub resmap: Vec<RKey>,
    pub present: Vec<bool>,
    /// registration calls on the meta table, in order, with repeats (type tags)
    pub reg: Vec<u8>,
    pub ntasks: usize,
    pub ops: Vec<TOp>,
}

pub fn gen(seed: u64, prop: &str) -> Scen {
    let mut rng = Rng::sub(seed, 21);
    let n = 1 + rng.below(6) as usize;
    let mut resmap = gen_resmap(&mut rng, n);
    if prop == "C17" || rng.chance(1, 2) {
        // the meta table only sees dynamic id 0
        let mut used: Vec<(u8, u64)> = Vec::new();
        for k in resmap.iter_mut() {
            if rng.chance(3, 4) {
                k.dynid = 0;
            }
            // keep the mapping injective
            while used.contains(&(k.ty, k.dynid)) {
                k.dynid += 1;
            }
            used.push((k.ty, k.dynid));
        }
    }
    let present: Vec<bool> = (0..n).map(|_| rng.chance(4, 5)).collect();
    let mut reg: Vec<u8> = Vec::new();
    let nreg = rng.below(12) as usize;
    for _ in 0..nreg {
        if !reg.is_empty() && rng.chance(1, 4) {
            let x = *rng.pick(&reg);
            reg.push(x); // repeat
        } else if rng.chance(3, 4) && !resmap.is_empty() {
            reg.push(rng.pick(&resmap).ty);
        } else {
            reg.push(rng.below(8) as u8);
        }
    }
    let ntasks = 1 + rng.below(4) as usize;
    let nops = 4 + rng.below(36) as usize;
    let meta_heavy = prop == "C17" || rng.chance(1, 3);
    let mut ops = Vec::new();
    for _ in 0..nops {
        let t = rng.below(ntasks as u64) as usize;
        let g = rng.below(4) as usize;
        let op = match rng.below(if meta_heavy { 33 } else { 22 }) {
            0..=6 => Op::Acquire {
                l: rng.below(n as u64) as usize,
                excl: rng.chance(2, 5),
                how: *rng.pick(&[How::Fetch, How::Try, How::ById, How::ById, How::SysData, How::SysDataOpt]),
            },
            7 => Op::Clone { g },
            8..=11 => Op::Drop { g },
            12 | 13 => Op::Read { g },
            14 | 15 => Op::Write { g },
            16 => Op::PanicNow,
            17 => Op::Yield,
            18 | 22 | 23 => Op::IterNew { excl: rng.chance(1, 2) },
            19 | 24 | 25 | 26 => Op::IterNext { it: rng.below(2) as usize },
            20 => Op::IterDrop { it: rng.below(2) as usize },
            21 | 27 | 28 => Op::MetaGet { g },
            30 | 31 | 32 => Op::IterNth { it: rng.below(2) as usize, n: 1 + rng.below(3) as usize },
            _ => Op::BadGet { g },
        };
        ops.push(TOp { t, op });
    }
    Scen { resmap, present, reg, ntasks, ops }
}

// ------------------------------------------------------------------------------------------------
// guards

trait Held<'w> {
    fn core(&self) -> Core;
    fn write_half(&mut self, _first: bool, _v: u64) {}
    fn try_clone(&self) -> Option<Box<dyn Held<'w> + 'w>> {
        None
    }
    /// MetaTable::get / get_mut through this guard: (found, tag, address equal to the typed address)
    fn meta_get(&mut self, _t: &MetaTable<dyn HObj>) -> Option<(bool, u8, bool)> {
        None
    }
    fn bad_get(&mut self, _t: &MetaTable<dyn BadObj>) -> Option<bool> {
        None
    }
}

struct GR<'w, T: HRes + HObj + BadObj>(Fetch<'w, T>);
struct GW<'w, T: HRes + HObj + BadObj>(FetchMut<'w, T>);
struct GRead<'w, T: HRes>(Read<'w, T>);
struct GWrite<'w, T: HRes>(Write<'w, T>);
struct GMetaR<'w>(AtomicRef<'w, dyn HObj + 'static>);
struct GMetaW<'w>(AtomicRefMut<'w, dyn HObj + 'static>);

impl<'w, T: HRes + HObj + BadObj> Held<'w> for GR<'w, T> {
    fn core(&self) -> Core {
        *HRes::core(&*self.0)
    }
    fn try_clone(&self) -> Option<Box<dyn Held<'w> + 'w>> {
        Some(Box::new(GR(self.0.clone())))
    }
    fn meta_get(&mut self, t: &MetaTable<dyn HObj>) -> Option<(bool, u8, bool)> {
        let typed: &T = &self.0;
        let addr = typed as *const T as usize;
        let r: &dyn Resource = typed;
        Some(match t.get(r) {
            Some(o) => (true, o.htag(), o.haddr() == addr && (o as *const dyn HObj as *const u8 as usize) == addr),
            None => (false, 0, true),
        })
    }
    fn bad_get(&mut self, t: &MetaTable<dyn BadObj>) -> Option<bool> {
        let typed: &T = &self.0;
        let r: &dyn Resource = typed;
        Some(t.get(r).is_some())
    }
}
impl<'w, T: HRes + HObj + BadObj> Held<'w> for GW<'w, T> {
    fn core(&self) -> Core {
        *HRes::core(&*self.0)
    }
    fn write_half(&mut self, first: bool, v: u64) {
        let c = HRes::core_mut(&mut *self.0);
        if first {
            c.ca = c.ca.wrapping_add(1);
            c.v = v;
        } else {
            c.cb = c.ca;
        }
    }
    fn meta_get(&mut self, t: &MetaTable<dyn HObj>) -> Option<(bool, u8, bool)> {
        let typed: &mut T = &mut self.0;
        let addr = typed as *mut T as usize;
        let r: &mut dyn Resource = typed;
        Some(match t.get_mut(r) {
            Some(o) => (true, o.htag(), o.haddr() == addr),
            None => (false, 0, true),
        })
    }
}
impl<'w, T: HRes> Held<'w> for GRead<'w, T> {
    fn core(&self) -> Core {
        *HRes::core(&*self.0)
    }
}
impl<'w, T: HRes> Held<'w> for GWrite<'w, T> {
    fn core(&self) -> Core {
        *HRes::core(&*self.0)
    }
    fn write_half(&mut self, first: bool, v: u64) {
        let c = HRes::core_mut(&mut *self.0);
        if first {
            c.ca = c.ca.wrapping_add(1);
            c.v = v;
        } else {
            c.cb = c.ca;
        }
    }
}
impl<'w> Held<'w> for GMetaR<'w> {
    fn core(&self) -> Core {
        *self.0.hcore()
    }
}
impl<'w> Held<'w> for GMetaW<'w> {
    fn core(&self) -> Core {
        *self.0.hcore()
    }
    fn write_half(&mut self, first: bool, v: u64) {
        let c = self.0.hcore_mut();
        if first {
            c.ca = c.ca.wrapping_add(1);
            c.v = v;
        } else {
            c.cb = c.ca;
        }
    }
}

fn acquire<'w>(w: &'w World, k: RKey, excl: bool, how: How) -> Option<Box<dyn Held<'w> + 'w>> {
    with_r!(k.ty, T => {
        let id = k.rid();
        match (how, excl) {
            (How::Fetch, false) => Some(Box::new(GR::<T>(w.fetch::<T>())) as Box<dyn Held<'w> + 'w>),
            (How::Fetch, true) => Some(Box::new(GW::<T>(w.fetch_mut::<T>()))),
            (How::Try, false) => w.try_fetch::<T>().map(|g| Box::new(GR::<T>(g)) as Box<dyn Held<'w> + 'w>),
            (How::Try, true) => w.try_fetch_mut::<T>().map(|g| Box::new(GW::<T>(g)) as Box<dyn Held<'w> + 'w>),
            (How::ById, false) => w.try_fetch_by_id::<T>(id).map(|g| Box::new(GR::<T>(g)) as Box<dyn Held<'w> + 'w>),
            (How::ById, true) => w.try_fetch_mut_by_id::<T>(id).map(|g| Box::new(GW::<T>(g)) as Box<dyn Held<'w> + 'w>),
            (How::SysData, false) => Some(Box::new(GRead::<T>(w.system_data::<Read<T>>()))),
            (How::SysData, true) => Some(Box::new(GWrite::<T>(w.system_data::<Write<T>>()))),
            (How::SysDataOpt, false) => w.system_data::<Option<Read<T>>>().map(|g| Box::new(GRead::<T>(g)) as Box<dyn Held<'w> + 'w>),
            (How::SysDataOpt, true) => w.system_data::<Option<Write<T>>>().map(|g| Box::new(GWrite::<T>(g)) as Box<dyn Held<'w> + 'w>),
        }
    })
}

enum It<'w> {
    R(MetaIter<'w, dyn HObj + 'static>),
    W(MetaIterMut<'w, dyn HObj + 'static>),
}

// ------------------------------------------------------------------------------------------------
// reference model

#[derive(Clone, Debug, Default)]
struct MRes {
    present: bool,
    v: u64,
    shared: u32,
    excl: bool,
}

struct MGuard {
    l: usize,
    excl: bool,
    cloneable: bool,
    meta_capable: bool,
}

struct MIter {
    excl: bool,
    /// position in the first-registration order
    pos: usize,
}

#[derive(Default)]
struct Shared {
    res: Vec<MRes>,
    out: Vec<Violation>,
    next_val: u64,
    events: Vec<(usize, usize, u8)>,
    counts: std::collections::BTreeMap<String, u64>,
    /// types whose address-changing cast was already rejected when the type was registered
    bad_rejected: Vec<u8>,
}

fn vio(prop: &str, class: &str, msg: String) -> Violation {
    Violation { prop: prop.into(), class: class.into(), msg }
}

fn cell_of(m: &MRes) -> Cell {
    if !m.present {
        Cell::Absent
    } else if m.excl {
        Cell::Excl
    } else if m.shared > 0 {
        Cell::Shared
    } else {
        Cell::Free
    }
}

fn bump(sh: &mut Shared, k: &str) {
    *sh.counts.entry(k.to_string()).or_insert(0) += 1;
}

/// First-registration order without repeats.
fn reg_order(reg: &[u8]) -> Vec<u8> {
    let mut v = Vec::new();
    for &t in reg {
        if !v.contains(&t) {
            v.push(t);
        }
    }
    v
}

fn check_cells(sc: &Scen, w: &World, sh: &mut Shared, step: usize, t: usize, op: &Op) {
    for (l, k) in sc.resmap.iter().enumerate() {
        let real = probe_cell(w, *k);
        let want = cell_of(&sh.res[l]);
        if real != want {
            sh.out.push(vio(
                "C08",
                "cell-state",
                format!("after operation #{} of task {} ({:?}): resource {} is {:?}, the reference borrow model says {:?}", step, t, op, l, real, want),
            ));
        }
    }
}

struct TaskCtx<'w> {
    guards: Vec<(Box<dyn Held<'w> + 'w>, MGuard)>,
    iters: Vec<(It<'w>, MIter)>,
}

/// Execute one operation of task `t` (the baton is held: the operation is atomic).
#[allow(clippy::too_many_arguments)]
fn exec_op<'w>(sc: &Scen, w: &'w World, table: &'w MetaTable<dyn HObj>, bad: &'w MetaTable<dyn BadObj>, shm: &Mutex<Shared>, tc: &mut TaskCtx<'w>, t: usize, step: usize, op: &Op) {
    let order = reg_order(&sc.reg);
    let mut sh = shm.lock().unwrap();
    if sh.out.iter().any(|v| v.class == "cell-state") {
        // the borrow flags are already known to be wrong: further operations (and unwinding
        // through guards whose release would panic) could only abort the process
        return;
    }
    sh.events.push((t, step, 0));
    match *op {
        Op::Yield => {}
        Op::Acquire { l, excl, how } => {
            let l = l % sc.resmap.len();
            let k = sc.resmap[l];
            // typed paths only exist for dynamic id 0
            let how = if k.dynid != 0 && how != How::ById { How::ById } else { how };
            let m = sh.res[l].clone();
            let conflict = m.present && (m.excl || (excl && m.shared > 0));
            let expect_panic = conflict || (!m.present && matches!(how, How::Fetch | How::SysData));
            let expect_none = !m.present && !expect_panic;
            drop(sh);
            let r = catch_unwind(AssertUnwindSafe(|| acquire(w, k, excl, how)));
            let mut sh = shm.lock().unwrap();
            bump(&mut sh, if conflict { "acquire_refused" } else if m.present { "acquire_granted" } else { "acquire_absent" });
            match r {
                Err(p) => {
                    let msg = crate::util::payload_string(&p);
                    if !expect_panic {
                        sh.out.push(vio("C08", "unexpected-panic", format!("operation #{} of task {} ({:?}) panicked ({}), the borrow model allows the borrow", step, t, op, msg.lines().next().unwrap_or(""))));
                    }
                    // (the wording of the refusal is the implementation's business)
                }
                Ok(None) => {
                    if !expect_none {
                        sh.out.push(vio(
                            "C08",
                            if conflict { "conflict-returned-none" } else { "present-returned-none" },
                            format!("operation #{} of task {} ({:?}) returned None; resource {} is present={} shared={} exclusive={} in the model (None is only for an absent resource)", step, t, op, l, m.present, m.shared, m.excl),
                        ));
                    }
                }
                Ok(Some(g)) => {
                    if expect_panic || expect_none {
                        sh.out.push(vio(
                            "C08",
                            "aliasing-guard",
                            format!("operation #{} of task {} ({:?}) returned a guard; resource {} is present={} shared={} exclusive={} in the model", step, t, op, l, m.present, m.shared, m.excl),
                        ));
                    }
                    if g.core().v != m.v && m.present {
                        sh.out.push(vio("C08", "wrong-value", format!("operation #{} of task {} ({:?}): the guard shows value {}, the model {}", step, t, op, g.core().v, m.v)));
                    }
                    if excl {
                        sh.res[l].excl = true;
                    } else {
                        sh.res[l].shared += 1;
                    }
                    let typed = matches!(how, How::Fetch | How::Try | How::ById);
                    tc.guards.push((g, MGuard { l, excl, cloneable: typed && !excl, meta_capable: typed }));
                }
            }
            check_cells(sc, w, &mut sh, step, t, op);
            return;
        }
        Op::Clone { g } => {
            if !tc.guards.is_empty() {
                let i = g % tc.guards.len();
                if tc.guards[i].1.cloneable {
                    if let Some(c) = tc.guards[i].0.try_clone() {
                        let l = tc.guards[i].1.l;
                        sh.res[l].shared += 1;
                        bump(&mut sh, "guard_cloned");
                        tc.guards.push((c, MGuard { l, excl: false, cloneable: true, meta_capable: true }));
                    }
                }
            }
        }
        Op::Drop { g } => {
            if !tc.guards.is_empty() {
                let i = g % tc.guards.len();
                let (gd, mg) = tc.guards.remove(i);
                drop(gd);
                if mg.excl {
                    sh.res[mg.l].excl = false;
                } else {
                    sh.res[mg.l].shared -= 1;
                }
                bump(&mut sh, "guard_dropped");
            }
        }
        Op::Read { g } => {
            if !tc.guards.is_empty() {
                let i = g % tc.guards.len();
                let c = tc.guards[i].0.core();
                let l = tc.guards[i].1.l;
                if !tc.guards[i].1.excl && c.ca != c.cb {
                    sh.out.push(vio("C08", "torn-read", format!("task {} read resource {} through a shared guard while a write was in progress (canary {} / {})", t, l, c.ca, c.cb)));
                }
                let mv = sh.res[l].v;
                if c.v != mv {
                    sh.out.push(vio("C08", "wrong-value", format!("operation #{} of task {}: guard on resource {} shows value {}, the model {}", step, t, l, c.v, mv)));
                }
            }
        }
        Op::Write { g } => {
            if let Some(i) = (0..tc.guards.len()).map(|k| (g + k) % tc.guards.len().max(1)).find(|&i| tc.guards[i].1.excl) {
                let l = tc.guards[i].1.l;
                sh.next_val += 1;
                let v = 1_000_000 + sh.next_val;
                tc.guards[i].0.write_half(true, v);
                sh.res[l].v = v;
                drop(sh);
                // the two canary words differ while other tasks run
                detsim::yield_point();
                tc.guards[i].0.write_half(false, v);
                let mut sh = shm.lock().unwrap();
                bump(&mut sh, "write_with_scheduler_point_inside");
                check_cells(sc, w, &mut sh, step, t, op);
                return;
            }
        }
        Op::IterNew { excl } => {
            let it = if excl { It::W(table.iter_mut(w)) } else { It::R(table.iter(w)) };
            tc.iters.push((it, MIter { excl, pos: 0 }));
            bump(&mut sh, "meta_iter_created");
        }
        Op::IterDrop { it } => {
            if !tc.iters.is_empty() {
                let i = it % tc.iters.len();
                tc.iters.remove(i);
            }
        }
        Op::IterNext { it } | Op::IterNth { it, .. } => {
            if !tc.iters.is_empty() {
                let i = it % tc.iters.len();
                let nskip = match op {
                    Op::IterNth { n, .. } => *n,
                    _ => 0,
                };
                // what the reference list yields next: the next registered type that is present
                // (dynamic id 0 only)
                let excl = tc.iters[i].1.excl;
                let mut pos = tc.iters[i].1.pos;
                let mut target: Option<(usize, u8)> = None;
                // items passed over by nth are borrowed and released on the way
                let mut passed: Vec<usize> = Vec::new();
                while pos < order.len() {
                    let ty = order[pos];
                    pos += 1;
                    if let Some(l) = sc.resmap.iter().position(|k| k.ty == ty && k.dynid == 0) {
                        if sh.res[l].present {
                            if passed.len() < nskip {
                                passed.push(l);
                                continue;
                            }
                            target = Some((l, ty));
                            break;
                        }
                    }
                }
                let busy = |l: usize| sh.res[l].excl || (excl && sh.res[l].shared > 0);
                // a busy item that is only passed over: the default `nth` borrows it on the way
                // (and panics); an implementation that steps over it without borrowing is just as
                // correct - either outcome is accepted then
                let conflict_target = target.map(|(l, _)| busy(l)).unwrap_or(false);
                let conflict_passed = passed.iter().any(|&l| busy(l));
                let conflict = conflict_target || conflict_passed;
                let either = conflict_passed && !conflict_target;
                drop(sh);
                let r = catch_unwind(AssertUnwindSafe(|| match &mut tc.iters[i].0 {
                    It::R(x) => (if nskip == 0 { x.next() } else { x.nth(nskip) }).map(|g| (g.htag(), g.haddr(), Box::new(GMetaR(g)) as Box<dyn Held<'w> + 'w>)),
                    It::W(x) => (if nskip == 0 { x.next() } else { x.nth(nskip) }).map(|g| (g.htag(), g.haddr(), Box::new(GMetaW(g)) as Box<dyn Held<'w> + 'w>)),
                }));
                let mut sh = shm.lock().unwrap();
                bump(&mut sh, if conflict { "meta_next_refused" } else if target.is_some() { "meta_next_item" } else { "meta_next_end" });
                match r {
                    Err(p) => {
                        let msg = crate::util::payload_string(&p);
                        if !conflict {
                            sh.out.push(vio("C08", "unexpected-panic", format!("operation #{} of task {} ({:?}): MetaIter::next panicked ({}), the borrow model allows the borrow", step, t, op, msg.lines().next().unwrap_or(""))));
                            sh.out.push(vio("C17", "iter-panicked", format!("operation #{} of task {} ({:?}): next panicked: {}", step, t, op, msg.lines().next().unwrap_or(""))));
                        }
                        // the iterator's state after a refusal is unspecified: it is not reused
                        tc.iters.remove(i);
                    }
                    Ok(None) => {
                        if let Some((l, ty)) = target {
                            let (cls, p2) = if conflict { ("conflict-skipped", "C08") } else { ("item-missing", "C17") };
                            sh.out.push(vio(p2, cls, format!("operation #{} of task {} ({:?}): iteration ended, the reference list yields type {} (resource {}) next", step, t, op, ty, l)));
                            if conflict {
                                sh.out.push(vio("C17", "item-missing", format!("operation #{} of task {}: iteration skipped the busy registered resource of type {}", step, t, ty)));
                            }
                        }
                        tc.iters[i].1.pos = order.len();
                    }
                    Ok(Some((tag, addr, g))) => match target {
                        None => sh.out.push(vio("C17", "extra-item", format!("operation #{} of task {} ({:?}): iteration yielded an object of type {}, the reference list is exhausted", step, t, op, tag))),
                        Some((l, ty)) => {
                            if conflict && !either {
                                sh.out.push(vio("C08", "aliasing-guard", format!("operation #{} of task {} ({:?}): the iterator yielded resource {} although it is borrowed incompatibly", step, t, op, l)));
                            }
                            if tag != ty {
                                sh.out.push(vio(
                                    "C17",
                                    "wrong-item",
                                    format!("operation #{} of task {} ({:?}): iteration yielded an object reporting type {}, the reference list (first-registration order, once each) yields type {}", step, t, op, tag, ty),
                                ));
                            }
                            let typed_addr = with_r!(ty, T => unsafe { w.try_fetch_internal(sc.resmap[l].rid()) }.map(|c| {
                                let p: *const Box<dyn Resource> = c.as_ptr();
                                // address of the boxed value
                                unsafe { &**p as *const dyn Resource as *const T as usize }
                            }));
                            if tag == ty && typed_addr != Some(addr) {
                                sh.out.push(vio("C17", "wrong-address", format!("operation #{} of task {}: the yielded object of type {} is not the resource itself (address differs)", step, t, ty)));
                            }
                            if excl {
                                sh.res[l].excl = true;
                            } else {
                                sh.res[l].shared += 1;
                            }
                            tc.guards.push((g, MGuard { l, excl, cloneable: false, meta_capable: false }));
                            tc.iters[i].1.pos = pos;
                        }
                    },
                }
                check_cells(sc, w, &mut sh, step, t, op);
                return;
            }
        }
        Op::MetaGet { g } => {
            if let Some(i) = (0..tc.guards.len()).map(|k| (g + k) % tc.guards.len().max(1)).find(|&i| tc.guards[i].1.meta_capable) {
                let l = tc.guards[i].1.l;
                let ty = sc.resmap[l].ty;
                let registered = order.contains(&ty);
                drop(sh);
                let r = catch_unwind(AssertUnwindSafe(|| tc.guards[i].0.meta_get(table)));
                let mut sh = shm.lock().unwrap();
                bump(&mut sh, if registered { "meta_get_registered" } else { "meta_get_unregistered" });
                match r {
                    Err(p) => sh.out.push(vio("C17", "get-panicked", format!("operation #{} of task {} ({:?}): MetaTable::get panicked: {}", step, t, op, crate::util::payload_string(&p).lines().next().unwrap_or("")))),
                    Ok(Some((found, tag, same_addr))) => {
                        if found != registered {
                            sh.out.push(vio("C17", "get-registration", format!("operation #{} of task {} ({:?}): get returned Some={} for type {}, registered={}", step, t, op, found, ty, registered)));
                        } else if found && (tag != ty || !same_addr) {
                            sh.out.push(vio("C17", "get-wrong-object", format!("operation #{} of task {} ({:?}): get on a resource of type {} returned an object reporting type {} (same address: {})", step, t, op, ty, tag, same_addr)));
                        }
                    }
                    Ok(None) => {}
                }
                check_cells(sc, w, &mut sh, step, t, op);
                return;
            }
        }
        Op::BadGet { g } => {
            if let Some(i) = (0..tc.guards.len()).map(|k| (g + k) % tc.guards.len().max(1)).find(|&i| tc.guards[i].1.meta_capable && !tc.guards[i].1.excl) {
                let l = tc.guards[i].1.l;
                let ty = sc.resmap[l].ty;
                let registered = order.contains(&ty);
                drop(sh);
                let r = catch_unwind(AssertUnwindSafe(|| tc.guards[i].0.bad_get(bad)));
                let mut sh = shm.lock().unwrap();
                bump(&mut sh, "bad_cast_attempted");
                match r {
                    Err(p) => {
                        let msg = crate::util::payload_string(&p);
                        // (any panic is a rejection; its wording is the implementation's business)
                        if !registered {
                            sh.out.push(vio("C17", "bad-cast-wrong-panic", format!("operation #{} of task {} ({:?}): unexpected panic {}", step, t, op, msg.lines().next().unwrap_or(""))));
                        }
                    }
                    Ok(Some(_)) if sh.bad_rejected.contains(&ty) => {}
                    Ok(Some(found)) => {
                        if registered {
                            sh.out.push(vio("C17", "bad-cast-accepted", format!("operation #{} of task {} ({:?}): a cast implementation that changes the address was not rejected (get returned Some={})", step, t, op, found)));
                        } else if found {
                            sh.out.push(vio("C17", "get-registration", format!("operation #{} of task {}: get returned Some for unregistered type {}", step, t, ty)));
                        }
                    }
                    Ok(None) => {}
                }
                check_cells(sc, w, &mut sh, step, t, op);
                return;
            }
        }
        Op::PanicNow => {
            let gs = std::mem::take(&mut tc.guards);
            let its = std::mem::take(&mut tc.iters);
            let models: Vec<(usize, bool)> = gs.iter().map(|g| (g.1.l, g.1.excl)).collect();
            drop(sh);
            let r = catch_unwind(AssertUnwindSafe(move || {
                let _hold = (gs, its);
                panic!("HPANICNOW unwinding through every guard");
            }));
            let mut sh = shm.lock().unwrap();
            bump(&mut sh, "unwind_through_guards");
            let _ = r;
            for (l, excl) in models {
                if excl {
                    sh.res[l].excl = false;
                } else {
                    sh.res[l].shared -= 1;
                }
            }
            check_cells(sc, w, &mut sh, step, t, op);
            return;
        }
    }
    check_cells(sc, w, &mut sh, step, t, op);
}

pub struct W8Out {
    pub violations: Vec<Violation>,
    pub trace: Vec<u32>,
    pub steps: u64,
    pub switches: u64,
    pub digest: u64,
    pub counts: std::collections::BTreeMap<String, u64>,
    pub outcome: detsim::Outcome,
}

pub fn run_scen(sc: &Scen, strat: &StratSpec, seed: u64, replay: Option<Vec<u32>>) -> W8Out {
    let mut world = World::empty();
    let mut shared = Shared { next_val: 0, ..Default::default() };
    for (l, k) in sc.resmap.iter().enumerate() {
        let v = 500 + l as u64;
        if sc.present[l] {
            (k.vt().insert)(&mut world, k.dynid, Core { v, ca: 1, cb: 1 });
        }
        shared.res.push(MRes { present: sc.present[l], v, shared: 0, excl: false });
    }
    let mut table: MetaTable<dyn HObj> = MetaTable::new();
    let mut bad: MetaTable<dyn BadObj> = MetaTable::new();
    for &t in &sc.reg {
        with_r!(t, T => {
            table.register::<T>();
            // an implementation may reject the address-changing cast right here
            if catch_unwind(AssertUnwindSafe(|| bad.register::<T>())).is_err() && !shared.bad_rejected.contains(&t) {
                shared.bad_rejected.push(t);
            }
        });
    }
    let world = Arc::new(world);
    let table = Arc::new(table);
    let bad = Arc::new(bad);
    let shm = Arc::new(Mutex::new(shared));
    let done = Arc::new(AtomicUsize::new(0));
    let sc_arc = Arc::new(sc.clone());
    let cfg = detsim::Config { seed, strategy: make_strategy_plain(strat, seed), replay, max_steps: MAX_STEPS };
    let rep = detsim::run(cfg, || {
        for t in 0..sc.ntasks {
            let (world, table, bad, shm, done, sc) = (world.clone(), table.clone(), bad.clone(), shm.clone(), done.clone(), sc_arc.clone());
            let body = move || {
                {
                    // guards borrow from the Arc'd world; they are dropped before the Arc
                    let w: &World = &world;
                    let mut tc = TaskCtx { guards: Vec::new(), iters: Vec::new() };
                    let mine: Vec<(usize, Op)> = sc.ops.iter().enumerate().filter(|(_, o)| o.t % sc.ntasks == t).map(|(i, o)| (i, o.op)).collect();
                    for (step, op) in mine {
                        detsim::yield_with_info(((t as u64 + 1) << 8) | 3);
                        exec_op(&sc, w, &table, &bad, &shm, &mut tc, t, step, &op);
                    }
                    // release what is left, one by one, checking the model each time
                    while let Some((g, mg)) = tc.guards.pop() {
                        drop(g);
                        let mut sh = shm.lock().unwrap();
                        if mg.excl {
                            sh.res[mg.l].excl = false;
                        } else {
                            sh.res[mg.l].shared -= 1;
                        }
                        check_cells(&sc, w, &mut sh, usize::MAX, t, &Op::Yield);
                    }
                    tc.iters.clear();
                }
                done.fetch_add(1, Ordering::SeqCst);
                detsim::poke();
            };
            if t == sc_arc.ntasks - 1 {
                body();
            } else {
                detsim::spawn("client", Box::new(body));
            }
        }
        let d = done.clone();
        let n = sc.ntasks;
        detsim::block_until("clients", move || d.load(Ordering::SeqCst) == n);
    });
    let mut sh = shm.lock().unwrap();
    let mut vs = std::mem::take(&mut sh.out);
    for e in &rep.escaped_panics {
        vs.push(vio("HARNESS", "escaped-panic", e.clone()));
    }
    let mut h = 0xcbf2_9ce4_8422_2325u64;
    for (t, s, _) in &sh.events {
        for b in [*t as u64, *s as u64] {
            h ^= b;
            h = h.wrapping_mul(0x0000_0100_0000_01b3);
        }
    }
    W8Out { violations: vs, trace: rep.trace, steps: rep.steps, switches: rep.switches, digest: h, counts: std::mem::take(&mut sh.counts), outcome: rep.outcome }
}

pub fn explore(prop: &str, seed: u64, thorough: bool, st: &mut Stats) -> Vec<Replay> {
    if prop == "C08" && seed % 8 == 0 {
        // guards of zero-sized / sized resources under several dynamic ids: clone, clone_from
        let zs = zst::gen(seed);
        st.scenarios += 1;
        if st.seeds == 0 {
            st.first_seed = seed;
        }
        st.seeds += 1;
        st.runs += 1;
        let (vs, checks) = zst::run(&zs);
        Stats::bump(&mut st.extra, "zst_guard_cases", 1);
        Stats::bump(&mut st.extra, "zst_guard_cell_checks", checks);
        let dg = crate::plan::fnv(serde_json::to_string(&zs).unwrap().as_bytes());
        crate::driver::chain(dg);
        if zs.ops.iter().any(|o| matches!(o, zst::ZOp::CloneFrom { .. })) {
            st.nontrivial.insert(dg);
        }
        let mut found: Vec<Replay> = Vec::new();
        for v in vs {
            Stats::bump(&mut st.class_hits, &v.class, 1);
            if !found.iter().any(|r| r.class == v.class) {
                found.push(Replay {
                    property: "C08".into(),
                    family: "W8".into(),
                    engine: "W".into(),
                    mode: "zst-guards".into(),
                    seed,
                    scenario: serde_json::to_value(&zs).unwrap(),
                    strategy: StratSpec::NoPreempt,
                    run_seed: 0,
                    trace: None,
                    class: v.class.clone(),
                    msg: v.msg.clone(),
                    digest: dg,
                });
            }
        }
        return found;
    }
    if prop == "C17" && seed % 4 == 0 {
        // big-table case
        let bs = big::gen(seed);
        st.scenarios += 1;
        if st.seeds == 0 {
            st.first_seed = seed;
        }
        st.seeds += 1;
        st.runs += 1;
        let (vs, checks) = big::run(&bs);
        Stats::bump(&mut st.extra, "big_table_cases", 1);
        Stats::bump(&mut st.extra, "big_table_checks", checks);
        let distinct = {
            let mut o: Vec<u16> = bs.reg.clone();
            o.sort();
            o.dedup();
            o.len()
        };
        if distinct > 16 {
            Stats::bump(&mut st.probes, "table_with_more_than_16_types", 1);
        }
        if distinct > 256 {
            Stats::bump(&mut st.probes, "table_with_more_than_256_types", 1);
        }
        let dg = crate::plan::fnv(serde_json::to_string(&bs).unwrap().as_bytes());
        crate::driver::chain(dg);
        if distinct >= 2 {
            st.nontrivial.insert(dg);
        }
        let mut found: Vec<Replay> = Vec::new();
        for v in vs {
            Stats::bump(&mut st.class_hits, &v.class, 1);
            if !found.iter().any(|r| r.class == v.class) {
                found.push(Replay {
                    property: "C17".into(),
                    family: "W8".into(),
                    engine: "W".into(),
                    mode: "big-table".into(),
                    seed,
                    scenario: serde_json::to_value(&bs).unwrap(),
                    strategy: StratSpec::NoPreempt,
                    run_seed: 0,
                    trace: None,
                    class: v.class.clone(),
                    msg: v.msg.clone(),
                    digest: dg,
                });
            }
        }
        return found;
    }
    let sc = gen(seed, prop);
    st.scenarios += 1;
    if st.seeds == 0 {
        st.first_seed = seed;
    }
    st.seeds += 1;
    if st.samples.len() < 2 {
        st.samples.push(json!({"seed": seed, "scenario": sc}));
    }
    let mut rng = Rng::sub(seed, 22);
    let mut found: Vec<Replay> = Vec::new();
    let nruns = if sc.ntasks == 1 { 1 } else if thorough { 8 } else { 4 };
    for k in 0..nruns {
        let strat = match k % 4 {
            0 => StratSpec::Random,
            1 => StratSpec::LowSwitch(150),
            2 => StratSpec::Pct(2),
            _ => StratSpec::RoundRobin,
        };
        let rs = rng.next_u64();
        let o = run_scen(&sc, &strat, rs, None);
        crate::driver::chain(o.digest);
        st.runs += 1;
        st.steps += o.steps;
        st.switches += o.switches;
        st.inters.insert(crate::res::mix(seed, o.digest));
        let refused = o.counts.get("acquire_refused").copied().unwrap_or(0) + o.counts.get("meta_next_refused").copied().unwrap_or(0);
        if refused > 0 || o.counts.contains_key("unwind_through_guards") {
            st.nontrivial.insert(crate::res::mix(seed, o.digest));
        }
        for (k, v) in &o.counts {
            let dst = if k.contains("refused") || k.contains("unwind") || k.contains("bad_cast") || k.contains("scheduler_point") { &mut st.faults } else { &mut st.extra };
            Stats::bump(dst, k, *v);
        }
        Stats::bump(&mut st.extra, &format!("tasks_{}", sc.ntasks), 1);
        for v in &o.violations {
            if v.prop == prop {
                Stats::bump(&mut st.class_hits, &v.class, 1);
                if !found.iter().any(|r| r.class == v.class) {
                    found.push(Replay {
                        property: prop.into(),
                        family: "W8".into(),
                        engine: "W".into(),
                        mode: "run".into(),
                        seed,
                        scenario: serde_json::to_value(&sc).unwrap(),
                        strategy: strat.clone(),
                        run_seed: rs,
                        trace: Some(o.trace.clone()),
                        class: v.class.clone(),
                        msg: v.msg.clone(),
                        digest: o.digest,
                    });
                }
            } else {
                Stats::bump(&mut st.other_prop, &v.prop, 1);
            }
        }
    }
    found
}

pub fn eval_replay(r: &Replay) -> EvalOut {
    if r.mode == "zst-guards" {
        let zs: zst::ZScen = serde_json::from_value(r.scenario.clone()).expect("scenario");
        let (vs, n) = zst::run(&zs);
        return EvalOut { violations: vs, digest: 0, trace: vec![], steps: n };
    }
    if r.mode == "big-table" {
        let bs: big::BigScen = serde_json::from_value(r.scenario.clone()).expect("scenario");
        let (vs, n) = big::run(&bs);
        return EvalOut { violations: vs, digest: 0, trace: vec![], steps: n };
    }
    let sc: Scen = serde_json::from_value(r.scenario.clone()).expect("scenario");
    let o = run_scen(&sc, &r.strategy, r.run_seed, r.trace.clone());
    EvalOut { violations: o.violations, digest: o.digest, trace: o.trace, steps: o.steps }
}

// ------------------------------------------------------------------------------------------------
// C17, big tables: more implementing types than any inline capacity or small-table fast path
// would hold (25, one of them zero-sized), registered in seeded order with repeats, any subset
// present. Single task: the borrow side of the iterators is the business of the scenarios above.

pub mod big {
    use super::*;
    use std::any::Any;

    pub trait BObj {
        fn btag2(&self) -> u16;
        fn baddr(&self) -> usize;
        fn bump(&mut self);
    }
    unsafe impl<T: BObj + 'static> shred::CastFrom<T> for dyn BObj {
        fn cast(t: *mut T) -> *mut Self {
            t
        }
    }
    /// Address-changing cast, also for zero-sized types (byte offset).
    pub trait BBad {
        fn x(&self) -> u8;
    }
    unsafe impl<T: BBad + 'static> shred::CastFrom<T> for dyn BBad {
        fn cast(t: *mut T) -> *mut Self {
            (t as *mut u8).wrapping_add(8) as *mut T
        }
    }

    pub struct TyVt {
        pub reg: fn(&mut MetaTable<dyn BObj>),
        pub reg_bad: fn(&mut MetaTable<dyn BBad>),
        pub insert: fn(&mut World),
        /// None: absent; Some(None): `get` said None; Some(Some((tag, same address)))
        pub get: fn(&MetaTable<dyn BObj>, &World) -> Option<Option<(u16, bool)>>,
        pub get_mut: fn(&MetaTable<dyn BObj>, &World) -> Option<Option<(u16, bool)>>,
        pub bad_get: fn(&MetaTable<dyn BBad>, &World) -> Option<bool>,
    }

    macro_rules! bigty {
        ($name:ident, $tag:expr, $($body:tt)*) => {
            #[derive(Default)]
            pub struct $name $($body)*
            impl BObj for $name {
                fn btag2(&self) -> u16 { $tag }
                fn baddr(&self) -> usize { self as *const $name as usize }
                fn bump(&mut self) {}
            }
            impl BBad for $name { fn x(&self) -> u8 { $tag } }
        };
    }
    bigty!(M0, 0, { a: u8 });
    bigty!(M1, 1, { a: u16 });
    bigty!(M2, 2, { a: u32 });
    bigty!(M3, 3, { a: u64 });
    bigty!(M4, 4, { a: u128 });
    bigty!(M5, 5, { a: [u8; 3] });
    bigty!(M6, 6, { a: [u8; 17] });
    bigty!(M7, 7, { a: [u64; 9] });
    bigty!(M8, 8, { a: (u8, u64) });
    bigty!(M9, 9, { a: String });
    bigty!(M10, 10, { a: Vec<u8> });
    bigty!(M11, 11, { a: [u16; 5] });
    bigty!(M12, 12, { a: f64 });
    bigty!(M13, 13, { a: [u32; 31] });
    bigty!(M14, 14, { a: Option<u64> });
    bigty!(M15, 15, { a: (u8, u8, u8) });
    bigty!(M16, 16, { a: ([u8; 32], [u8; 32], u8) });
    bigty!(M17, 17, { a: i8 });
    bigty!(M18, 18, { a: [u64; 2] });
    bigty!(M19, 19, { a: Box<u8> });
    bigty!(M20, 20, { a: [u8; 7] });
    bigty!(M21, 21, { a: (u64, u8) });
    bigty!(M22, 22, { a: [u128; 3] });
    bigty!(M23, 23, { a: char });
    bigty!(MZ, 24, ;);

    /// 300 more implementors (the table's index arithmetic must not care how many there are)
    #[derive(Default)]
    pub struct G<const N: u16> {
        a: u32,
    }
    impl<const N: u16> BObj for G<N> {
        fn btag2(&self) -> u16 {
            25 + N
        }
        fn baddr(&self) -> usize {
            self as *const Self as usize
        }
        fn bump(&mut self) {
            self.a = self.a.wrapping_add(1);
        }
    }
    impl<const N: u16> BBad for G<N> {
        fn x(&self) -> u8 {
            N as u8
        }
    }

    fn vt<T: BObj + BBad + Resource + Default + Any>() -> TyVt {
        TyVt {
            reg: |t| t.register::<T>(),
            reg_bad: |t| t.register::<T>(),
            insert: |w| w.insert(T::default()),
            get: |t, w| {
                let g = w.try_fetch::<T>()?;
                let typed: &T = &g;
                let addr = typed as *const T as usize;
                let r: &dyn Resource = typed;
                Some(t.get(r).map(|o| (o.btag2(), o.baddr() == addr && (o as *const dyn BObj as *const u8 as usize) == addr)))
            },
            get_mut: |t, w| {
                let mut g = w.try_fetch_mut::<T>()?;
                let typed: &mut T = &mut g;
                let addr = typed as *mut T as usize;
                let r: &mut dyn Resource = typed;
                Some(t.get_mut(r).map(|o| {
                    o.bump();
                    (o.btag2(), o.baddr() == addr)
                }))
            },
            bad_get: |t, w| {
                let g = w.try_fetch::<T>()?;
                let typed: &T = &g;
                let r: &dyn Resource = typed;
                Some(t.get(r).is_some())
            },
        }
    }

    pub fn table() -> Vec<TyVt> {
        vec![
            vt::<M0>(), vt::<M1>(), vt::<M2>(), vt::<M3>(), vt::<M4>(), vt::<M5>(), vt::<M6>(), vt::<M7>(), vt::<M8>(), vt::<M9>(),
            vt::<M10>(), vt::<M11>(), vt::<M12>(), vt::<M13>(), vt::<M14>(), vt::<M15>(), vt::<M16>(), vt::<M17>(), vt::<M18>(), vt::<M19>(),
            vt::<M20>(), vt::<M21>(), vt::<M22>(), vt::<M23>(), vt::<MZ>(),
        ]
    }

    /// the 25 above plus 300 const-generic ones
    pub fn table_huge() -> Vec<TyVt> {
        let mut v = table();
        v.extend(vec![vt::<G<0>>(), vt::<G<1>>(), vt::<G<2>>(), vt::<G<3>>(), vt::<G<4>>(), vt::<G<5>>(), vt::<G<6>>(), vt::<G<7>>(), vt::<G<8>>(), vt::<G<9>>(), vt::<G<10>>(), vt::<G<11>>(), vt::<G<12>>(), vt::<G<13>>(), vt::<G<14>>(), vt::<G<15>>(), vt::<G<16>>(), vt::<G<17>>(), vt::<G<18>>(), vt::<G<19>>(), vt::<G<20>>(), vt::<G<21>>(), vt::<G<22>>(), vt::<G<23>>(), vt::<G<24>>(), vt::<G<25>>(), vt::<G<26>>(), vt::<G<27>>(), vt::<G<28>>(), vt::<G<29>>(), vt::<G<30>>(), vt::<G<31>>(), vt::<G<32>>(), vt::<G<33>>(), vt::<G<34>>(), vt::<G<35>>(), vt::<G<36>>(), vt::<G<37>>(), vt::<G<38>>(), vt::<G<39>>(), vt::<G<40>>(), vt::<G<41>>(), vt::<G<42>>(), vt::<G<43>>(), vt::<G<44>>(), vt::<G<45>>(), vt::<G<46>>(), vt::<G<47>>(), vt::<G<48>>(), vt::<G<49>>(), vt::<G<50>>(), vt::<G<51>>(), vt::<G<52>>(), vt::<G<53>>(), vt::<G<54>>(), vt::<G<55>>(), vt::<G<56>>(), vt::<G<57>>(), vt::<G<58>>(), vt::<G<59>>(), vt::<G<60>>(), vt::<G<61>>(), vt::<G<62>>(), vt::<G<63>>(), vt::<G<64>>(), vt::<G<65>>(), vt::<G<66>>(), vt::<G<67>>(), vt::<G<68>>(), vt::<G<69>>(), vt::<G<70>>(), vt::<G<71>>(), vt::<G<72>>(), vt::<G<73>>(), vt::<G<74>>(), vt::<G<75>>(), vt::<G<76>>(), vt::<G<77>>(), vt::<G<78>>(), vt::<G<79>>(), vt::<G<80>>(), vt::<G<81>>(), vt::<G<82>>(), vt::<G<83>>(), vt::<G<84>>(), vt::<G<85>>(), vt::<G<86>>(), vt::<G<87>>(), vt::<G<88>>(), vt::<G<89>>(), vt::<G<90>>(), vt::<G<91>>(), vt::<G<92>>(), vt::<G<93>>(), vt::<G<94>>(), vt::<G<95>>(), vt::<G<96>>(), vt::<G<97>>(), vt::<G<98>>(), vt::<G<99>>(), vt::<G<100>>(), vt::<G<101>>(), vt::<G<102>>(), vt::<G<103>>(), vt::<G<104>>(), vt::<G<105>>(), vt::<G<106>>(), vt::<G<107>>(), vt::<G<108>>(), vt::<G<109>>(), vt::<G<110>>(), vt::<G<111>>(), vt::<G<112>>(), vt::<G<113>>(), vt::<G<114>>(), vt::<G<115>>(), vt::<G<116>>(), vt::<G<117>>(), vt::<G<118>>(), vt::<G<119>>(), vt::<G<120>>(), vt::<G<121>>(), vt::<G<122>>(), vt::<G<123>>(), vt::<G<124>>(), vt::<G<125>>(), vt::<G<126>>(), vt::<G<127>>(), vt::<G<128>>(), vt::<G<129>>(), vt::<G<130>>(), vt::<G<131>>(), vt::<G<132>>(), vt::<G<133>>(), vt::<G<134>>(), vt::<G<135>>(), vt::<G<136>>(), vt::<G<137>>(), vt::<G<138>>(), vt::<G<139>>(), vt::<G<140>>(), vt::<G<141>>(), vt::<G<142>>(), vt::<G<143>>(), vt::<G<144>>(), vt::<G<145>>(), vt::<G<146>>(), vt::<G<147>>(), vt::<G<148>>(), vt::<G<149>>(), vt::<G<150>>(), vt::<G<151>>(), vt::<G<152>>(), vt::<G<153>>(), vt::<G<154>>(), vt::<G<155>>(), vt::<G<156>>(), vt::<G<157>>(), vt::<G<158>>(), vt::<G<159>>(), vt::<G<160>>(), vt::<G<161>>(), vt::<G<162>>(), vt::<G<163>>(), vt::<G<164>>(), vt::<G<165>>(), vt::<G<166>>(), vt::<G<167>>(), vt::<G<168>>(), vt::<G<169>>(), vt::<G<170>>(), vt::<G<171>>(), vt::<G<172>>(), vt::<G<173>>(), vt::<G<174>>(), vt::<G<175>>(), vt::<G<176>>(), vt::<G<177>>(), vt::<G<178>>(), vt::<G<179>>(), vt::<G<180>>(), vt::<G<181>>(), vt::<G<182>>(), vt::<G<183>>(), vt::<G<184>>(), vt::<G<185>>(), vt::<G<186>>(), vt::<G<187>>(), vt::<G<188>>(), vt::<G<189>>(), vt::<G<190>>(), vt::<G<191>>(), vt::<G<192>>(), vt::<G<193>>(), vt::<G<194>>(), vt::<G<195>>(), vt::<G<196>>(), vt::<G<197>>(), vt::<G<198>>(), vt::<G<199>>(), vt::<G<200>>(), vt::<G<201>>(), vt::<G<202>>(), vt::<G<203>>(), vt::<G<204>>(), vt::<G<205>>(), vt::<G<206>>(), vt::<G<207>>(), vt::<G<208>>(), vt::<G<209>>(), vt::<G<210>>(), vt::<G<211>>(), vt::<G<212>>(), vt::<G<213>>(), vt::<G<214>>(), vt::<G<215>>(), vt::<G<216>>(), vt::<G<217>>(), vt::<G<218>>(), vt::<G<219>>(), vt::<G<220>>(), vt::<G<221>>(), vt::<G<222>>(), vt::<G<223>>(), vt::<G<224>>(), vt::<G<225>>(), vt::<G<226>>(), vt::<G<227>>(), vt::<G<228>>(), vt::<G<229>>(), vt::<G<230>>(), vt::<G<231>>(), vt::<G<232>>(), vt::<G<233>>(), vt::<G<234>>(), vt::<G<235>>(), vt::<G<236>>(), vt::<G<237>>(), vt::<G<238>>(), vt::<G<239>>(), vt::<G<240>>(), vt::<G<241>>(), vt::<G<242>>(), vt::<G<243>>(), vt::<G<244>>(), vt::<G<245>>(), vt::<G<246>>(), vt::<G<247>>(), vt::<G<248>>(), vt::<G<249>>(), vt::<G<250>>(), vt::<G<251>>(), vt::<G<252>>(), vt::<G<253>>(), vt::<G<254>>(), vt::<G<255>>(), vt::<G<256>>(), vt::<G<257>>(), vt::<G<258>>(), vt::<G<259>>(), vt::<G<260>>(), vt::<G<261>>(), vt::<G<262>>(), vt::<G<263>>(), vt::<G<264>>(), vt::<G<265>>(), vt::<G<266>>(), vt::<G<267>>(), vt::<G<268>>(), vt::<G<269>>(), vt::<G<270>>(), vt::<G<271>>(), vt::<G<272>>(), vt::<G<273>>(), vt::<G<274>>(), vt::<G<275>>(), vt::<G<276>>(), vt::<G<277>>(), vt::<G<278>>(), vt::<G<279>>(), vt::<G<280>>(), vt::<G<281>>(), vt::<G<282>>(), vt::<G<283>>(), vt::<G<284>>(), vt::<G<285>>(), vt::<G<286>>(), vt::<G<287>>(), vt::<G<288>>(), vt::<G<289>>(), vt::<G<290>>(), vt::<G<291>>(), vt::<G<292>>(), vt::<G<293>>(), vt::<G<294>>(), vt::<G<295>>(), vt::<G<296>>(), vt::<G<297>>(), vt::<G<298>>(), vt::<G<299>>()]);
        v
    }

    #[derive(Clone, Debug, Serialize, Deserialize, PartialEq)]
    pub struct BigScen {
        pub reg: Vec<u16>,
        pub present: Vec<bool>,
        /// positional consumption of the iterators: `skip(a).step_by(b)`
        #[serde(default)]
        pub skip: usize,
        #[serde(default = "one")]
        pub step: usize,
    }

    fn one() -> usize {
        1
    }

    pub fn gen(seed: u64) -> BigScen {
        let mut rng = Rng::sub(seed, 27);
        // one scenario in eight registers hundreds of types
        let huge = rng.chance(1, 8);
        let n = if huge { 325 } else { 25 };
        let nreg = if huge { 200 + rng.below(500) as usize } else { rng.below(60) as usize };
        let mut reg = Vec::new();
        let wide = rng.chance(1, 2);
        for _ in 0..nreg {
            if !reg.is_empty() && rng.chance(1, 5) {
                let x = *rng.pick(&reg);
                reg.push(x);
            } else {
                reg.push(rng.below(if wide || huge { n } else { 9 }) as u16);
            }
        }
        BigScen { reg, present: (0..n).map(|_| rng.chance(3, 4)).collect(), skip: rng.below(4) as usize, step: 1 + rng.below(3) as usize }
    }

    pub fn run(sc: &BigScen) -> (Vec<Violation>, u64) {
        let tys = if sc.present.len() > 25 || sc.reg.iter().any(|&r| r >= 25) { table_huge() } else { table() };
        let mut out = Vec::new();
        let mut checks = 0u64;
        let mut t: MetaTable<dyn BObj> = MetaTable::new();
        let mut bad: MetaTable<dyn BBad> = MetaTable::new();
        let mut w = World::empty();
        for (i, p) in sc.present.iter().enumerate() {
            if *p && i < tys.len() {
                (tys[i].insert)(&mut w);
            }
        }
        // registrations interleaved with queries: the reference list grows with them
        let mut order: Vec<u16> = Vec::new();
        let mut check_all = |t: &MetaTable<dyn BObj>, bad: &MetaTable<dyn BBad>, order: &[u16], when: usize, out: &mut Vec<Violation>, bad_rej: &[usize]| {
            for (i, ty) in tys.iter().enumerate() {
                let registered = order.contains(&(i as u16));
                for (which, f) in [("get", ty.get), ("get_mut", ty.get_mut)] {
                    checks += 1;
                    match catch_unwind(AssertUnwindSafe(|| f(t, &w))) {
                        Err(p) => out.push(vio("C17", "get-panicked", format!("after {} registrations: {} on type {} panicked: {}", when, which, i, crate::util::payload_string(&p).lines().next().unwrap_or("")))),
                        Ok(None) => {}
                        Ok(Some(r)) => {
                            if r.is_some() != registered {
                                out.push(vio("C17", "get-registration", format!("after {} registrations ({} distinct types): {} returned Some={} for type {}, registered={}", when, order.len(), which, r.is_some(), i, registered)));
                            } else if let Some((tag, same)) = r {
                                if tag != i as u16 || !same {
                                    out.push(vio("C17", "get-wrong-object", format!("after {} registrations: {} on a resource of type {} returned an object reporting type {} (same address: {})", when, which, i, tag, same)));
                                }
                            }
                        }
                    }
                }
                if registered && sc.present.get(i).copied().unwrap_or(false) && !bad_rej.contains(&i) {
                    checks += 1;
                    match catch_unwind(AssertUnwindSafe(|| (ty.bad_get)(bad, &w))) {
                        Err(p) => {
                            let m = crate::util::payload_string(&p);
                            // any panic is a rejection
                            let _ = m;
                        }
                        Ok(_) => out.push(vio("C17", "bad-cast-accepted", format!("after {} registrations: a cast implementation that changes the address was not rejected for type {}{}", when, i, if i == 24 { " (zero-sized)" } else { "" }))),
                    }
                }
            }
            let want: Vec<u16> = order.iter().copied().filter(|&x| sc.present.get(x as usize).copied().unwrap_or(false)).collect();
            checks += 2;
            match catch_unwind(AssertUnwindSafe(|| t.iter(&w).map(|o| o.btag2()).collect::<Vec<u16>>())) {
                Ok(got) if got == want => {}
                Ok(got) => out.push(vio("C17", "iter-sequence", format!("after {} registrations: iter yields types {:?}, the reference list (first-registration order, once each, present only) {:?}", when, got, want))),
                Err(p) => out.push(vio("C17", "iter-panicked", crate::util::payload_string(&p))),
            }
            match catch_unwind(AssertUnwindSafe(|| t.iter_mut(&w).map(|mut o| { o.bump(); o.btag2() }).collect::<Vec<u16>>())) {
                Ok(got) if got == want => {}
                Ok(got) => out.push(vio("C17", "iter-sequence", format!("after {} registrations: iter_mut yields types {:?}, the reference list {:?}", when, got, want))),
                Err(p) => out.push(vio("C17", "iter-panicked", crate::util::payload_string(&p))),
            }
            // positional consumption (skip / step_by are built on nth)
            let step = sc.step.max(1);
            let want2: Vec<u16> = want.iter().copied().skip(sc.skip).step_by(step).collect();
            checks += 2;
            match catch_unwind(AssertUnwindSafe(|| t.iter(&w).skip(sc.skip).step_by(step).map(|o| o.btag2()).collect::<Vec<u16>>())) {
                Ok(got) if got == want2 => {}
                Ok(got) => out.push(vio("C17", "iter-sequence", format!("after {} registrations: iter().skip({}).step_by({}) yields types {:?}, the reference list gives {:?}", when, sc.skip, step, got, want2))),
                Err(p) => out.push(vio("C17", "iter-panicked", crate::util::payload_string(&p))),
            }
            match catch_unwind(AssertUnwindSafe(|| t.iter_mut(&w).skip(sc.skip).step_by(step).map(|o| o.btag2()).collect::<Vec<u16>>())) {
                Ok(got) if got == want2 => {}
                Ok(got) => out.push(vio("C17", "iter-sequence", format!("after {} registrations: iter_mut().skip({}).step_by({}) yields types {:?}, the reference list gives {:?}", when, sc.skip, step, got, want2))),
                Err(p) => out.push(vio("C17", "iter-panicked", crate::util::payload_string(&p))),
            }
        };
        let every = (sc.reg.len() / 4).max(1);
        let mut bad_rejected: Vec<usize> = Vec::new();
        for (k, &ty) in sc.reg.iter().enumerate() {
            let i = ty as usize % tys.len();
            (tys[i].reg)(&mut t);
            if catch_unwind(AssertUnwindSafe(|| (tys[i].reg_bad)(&mut bad))).is_err() && !bad_rejected.contains(&i) {
                bad_rejected.push(i);
            }
            if !order.contains(&(i as u16)) {
                order.push(i as u16);
            }
            if (k + 1) % every == 0 && out.is_empty() {
                check_all(&t, &bad, &order, k + 1, &mut out, &bad_rejected);
            }
        }
        if out.is_empty() {
            check_all(&t, &bad, &order, sc.reg.len(), &mut out, &bad_rejected);
        }
        out.truncate(4);
        (out, checks)
    }
}

// ------------------------------------------------------------------------------------------------
// C08, guards of zero-sized and sized resources under several dynamic ids: `clone`, `clone_from`,
// drops in any order. A boxed zero-sized value has no allocation of its own, so every cell of such
// a type holds "the same" data address - whatever tells guards apart must not be that address.
// Single task; the borrow-count model is checked against the real cells after every operation.

pub mod zst {
    use super::*;
    use shred::ResourceId;

    #[derive(Default)]
    pub struct Zs;
    #[derive(Default)]
    pub struct Sz {
        pub v: u64,
    }

    #[derive(Clone, Copy, Debug, Serialize, Deserialize, PartialEq)]
    pub enum ZOp {
        Shared { zst: bool, id: u8 },
        Excl { zst: bool, id: u8 },
        Clone { g: usize },
        CloneFrom { a: usize, b: usize },
        Drop { g: usize },
    }

    #[derive(Clone, Debug, Serialize, Deserialize, PartialEq)]
    pub struct ZScen {
        pub ops: Vec<ZOp>,
    }

    pub fn gen(seed: u64) -> ZScen {
        let mut rng = Rng::sub(seed, 61);
        let n = 4 + rng.below(28) as usize;
        let zst_bias = rng.chance(2, 3);
        let ops = (0..n)
            .map(|_| {
                let zst = if zst_bias { rng.chance(3, 4) } else { rng.chance(1, 2) };
                match rng.below(12) {
                    0..=3 => ZOp::Shared { zst, id: rng.below(3) as u8 },
                    4 => ZOp::Excl { zst, id: rng.below(3) as u8 },
                    5 | 6 => ZOp::Clone { g: rng.below(8) as usize },
                    7..=9 => ZOp::CloneFrom { a: rng.below(8) as usize, b: rng.below(8) as usize },
                    _ => ZOp::Drop { g: rng.below(8) as usize },
                }
            })
            .collect();
        ZScen { ops }
    }

    enum G<'w> {
        Zr(Fetch<'w, Zs>),
        Sr(Fetch<'w, Sz>),
        Zw(FetchMut<'w, Zs>),
        Sw(FetchMut<'w, Sz>),
    }

    fn rid(zst: bool, id: u8) -> ResourceId {
        if zst {
            ResourceId::new_with_dynamic_id::<Zs>(id as u64)
        } else {
            ResourceId::new_with_dynamic_id::<Sz>(id as u64)
        }
    }

    pub fn run(sc: &ZScen) -> (Vec<Violation>, u64) {
        let mut w = World::empty();
        for id in 0..3u8 {
            w.insert_by_id(rid(true, id), Zs);
            w.insert_by_id(rid(false, id), Sz { v: 100 + id as u64 });
        }
        let w = &w;
        let mut out: Vec<Violation> = Vec::new();
        // model: shared count / exclusive flag per (zst, id)
        let mut shared = [[0i32; 3]; 2];
        let mut excl = [[false; 3]; 2];
        // live guards with what the model says they stand for
        let mut gs: Vec<(G, bool, u8, bool)> = Vec::new(); // (guard, zst, id, exclusive)
        let mut checks = 0u64;
        for (step, op) in sc.ops.iter().enumerate() {
            match *op {
                ZOp::Shared { zst, id } => {
                    let must_panic = excl[zst as usize][id as usize];
                    let r = catch_unwind(AssertUnwindSafe(|| if zst { w.try_fetch_by_id::<Zs>(rid(zst, id)).map(G::Zr) } else { w.try_fetch_by_id::<Sz>(rid(zst, id)).map(G::Sr) }));
                    match (r, must_panic) {
                        (Err(_), true) => {}
                        (Err(p), false) => out.push(vio("C08", "unexpected-panic", format!("step {} ({:?}): a shared fetch panicked ({}) although the model has no exclusive guard on that resource", step, op, crate::util::payload_string(&p).lines().next().unwrap_or("")))),
                        (Ok(Some(g)), false) => {
                            shared[zst as usize][id as usize] += 1;
                            gs.push((g, zst, id, false));
                        }
                        (Ok(Some(_)), true) => out.push(vio("C08", "aliasing-guard", format!("step {} ({:?}): a shared guard was handed out while an exclusive guard on the same resource is alive", step, op))),
                        (Ok(None), _) => out.push(vio("C08", "conflict-returned-none", format!("step {} ({:?}): the try_ form returned None for a present resource", step, op))),
                    }
                }
                ZOp::Excl { zst, id } => {
                    let must_panic = excl[zst as usize][id as usize] || shared[zst as usize][id as usize] > 0;
                    let r = catch_unwind(AssertUnwindSafe(|| if zst { w.try_fetch_mut_by_id::<Zs>(rid(zst, id)).map(G::Zw) } else { w.try_fetch_mut_by_id::<Sz>(rid(zst, id)).map(G::Sw) }));
                    match (r, must_panic) {
                        (Err(_), true) => {}
                        (Err(p), false) => out.push(vio("C08", "unexpected-panic", format!("step {} ({:?}): an exclusive fetch panicked ({}) although the model has no guard on that resource (shared counts {:?})", step, op, crate::util::payload_string(&p).lines().next().unwrap_or(""), shared))),
                        (Ok(Some(g)), false) => {
                            excl[zst as usize][id as usize] = true;
                            gs.push((g, zst, id, true));
                        }
                        (Ok(Some(_)), true) => out.push(vio("C08", "aliasing-guard", format!("step {} ({:?}): an exclusive guard was handed out while the model holds guards on the same resource (shared {:?}, exclusive {:?})", step, op, shared, excl))),
                        (Ok(None), _) => out.push(vio("C08", "conflict-returned-none", format!("step {} ({:?}): the try_ form returned None for a present resource", step, op))),
                    }
                }
                ZOp::Clone { g } => {
                    if let Some(i) = (0..gs.len()).map(|k| (g + k) % gs.len().max(1)).find(|&i| !gs[i].3) {
                        let (zst, id) = (gs[i].1, gs[i].2);
                        let c = match &gs[i].0 {
                            G::Zr(f) => G::Zr(f.clone()),
                            G::Sr(f) => G::Sr(f.clone()),
                            _ => unreachable!(),
                        };
                        shared[zst as usize][id as usize] += 1;
                        gs.push((c, zst, id, false));
                    }
                }
                ZOp::CloneFrom { a, b } => {
                    // two shared guards of the same type; `a` becomes another guard of b's resource
                    let n = gs.len();
                    let cand = (0..n).map(|k| (a + k) % n.max(1)).find_map(|i| {
                        if gs[i].3 {
                            return None;
                        }
                        (0..n).map(|k| (b + k) % n).find(|&j| j != i && !gs[j].3 && gs[j].1 == gs[i].1).map(|j| (i, j))
                    });
                    if let Some((i, j)) = cand {
                        let (zst, ida, idb) = (gs[i].1, gs[i].2, gs[j].2);
                        let src = match &gs[j].0 {
                            G::Zr(f) => G::Zr(f.clone()),
                            G::Sr(f) => G::Sr(f.clone()),
                            _ => unreachable!(),
                        };
                        // (the temporary clone above is dropped again below: net effect zero)
                        match (&mut gs[i].0, &src) {
                            (G::Zr(x), G::Zr(y)) => x.clone_from(y),
                            (G::Sr(x), G::Sr(y)) => x.clone_from(y),
                            _ => unreachable!(),
                        }
                        drop(src);
                        shared[zst as usize][ida as usize] -= 1;
                        shared[zst as usize][idb as usize] += 1;
                        gs[i].2 = idb;
                        if let G::Sr(x) = &gs[i].0 {
                            if x.v != 100 + idb as u64 {
                                out.push(vio("C08", "wrong-value", format!("step {} ({:?}): after clone_from the guard shows the value of another resource", step, op)));
                            }
                        }
                    }
                }
                ZOp::Drop { g } => {
                    if !gs.is_empty() {
                        let i = g % gs.len();
                        let (gd, zst, id, ex) = gs.remove(i);
                        drop(gd);
                        if ex {
                            excl[zst as usize][id as usize] = false;
                        } else {
                            shared[zst as usize][id as usize] -= 1;
                        }
                    }
                }
            }
            // the real cells against the model
            for zst in [true, false] {
                for id in 0..3u8 {
                    checks += 1;
                    let cell = unsafe { w.try_fetch_internal(rid(zst, id)) }.expect("resource present");
                    let real = crate::res::classify_cell(cell);
                    let want = if excl[zst as usize][id as usize] {
                        Cell::Excl
                    } else if shared[zst as usize][id as usize] > 0 {
                        Cell::Shared
                    } else {
                        Cell::Free
                    };
                    if real != want && out.is_empty() {
                        out.push(vio(
                            "C08",
                            "cell-state",
                            format!("after step {} ({:?}): the cell of the {} resource with dynamic id {} is {:?}, the model of the live guards says {:?}", step, op, if zst { "zero-sized" } else { "sized" }, id, real, want),
                        ));
                    }
                }
            }
            if !out.is_empty() {
                break;
            }
        }
        drop(gs);
        (out, checks)
    }
}
