//! C06: declared access equals real borrows for every provided system-data
//! type. The type zoo (generated tuples, nestings, derived structs), an
//! independent `Describe` oracle for the expected leaves, and the checker that
//! enumerates (type, failing member) crash points.

use std::marker::PhantomData;
use std::panic::{catch_unwind, AssertUnwindSafe};
use std::sync::atomic::{AtomicU64, Ordering};

use detsim::Rng;
use serde_json::json;
use shred::{DefaultProvider, PanicHandler, Read, ReadExpect, Resource, ResourceId, SetupHandler, SystemData, World, Write, WriteExpect};

use crate::oracle::Violation;
use crate::res::Cell;
pub use crate::zoo_gen::*;

pub trait ZRes: Resource + Default {
    const IDX: usize;
    fn tag(&self) -> u64;
    fn with_tag(t: u64) -> Self;
}

pub trait Fam: 'static {
    type D<'a>: SystemData<'a> + Describe;
}

/// User-written setup handler that records its calls and inserts a marked value.
pub struct H<const I: usize>;
pub static HCALLS: [AtomicU64; 64] = [const { AtomicU64::new(0) }; 64];
pub const MARK: u64 = 777_000;

impl<T: ZRes, const I: usize> SetupHandler<T> for H<I> {
    fn setup(world: &mut World) {
        HCALLS[I].fetch_add(1, Ordering::SeqCst);
        if !world.has_value::<T>() {
            world.insert(T::with_tag(MARK + I as u64));
        }
    }
}

#[derive(Clone, Copy, Debug, PartialEq, Eq)]
pub enum LKind {
    Default,
    Expect,
    Custom(usize),
    Optional,
}

#[derive(Clone, Copy, Debug)]
pub struct LeafD {
    pub res: usize,
    pub write: bool,
    pub kind: LKind,
}

/// The oracle's own account of which leaves a type consists of, in fetch order.
/// Written independently of the library's macro / derive.
pub trait Describe {
    fn leaves(out: &mut Vec<LeafD>);
}

pub trait HandlerKind {
    fn kind() -> LKind;
}
impl HandlerKind for DefaultProvider {
    fn kind() -> LKind {
        LKind::Default
    }
}
impl HandlerKind for PanicHandler {
    fn kind() -> LKind {
        LKind::Expect
    }
}
impl<const I: usize> HandlerKind for H<I> {
    fn kind() -> LKind {
        LKind::Custom(I)
    }
}

impl<'a, T: ZRes, F: HandlerKind> Describe for Read<'a, T, F> {
    fn leaves(out: &mut Vec<LeafD>) {
        out.push(LeafD { res: T::IDX, write: false, kind: F::kind() });
    }
}
impl<'a, T: ZRes, F: HandlerKind> Describe for Write<'a, T, F> {
    fn leaves(out: &mut Vec<LeafD>) {
        out.push(LeafD { res: T::IDX, write: true, kind: F::kind() });
    }
}
impl<'a, T: ZRes, F> Describe for Option<Read<'a, T, F>> {
    fn leaves(out: &mut Vec<LeafD>) {
        out.push(LeafD { res: T::IDX, write: false, kind: LKind::Optional });
    }
}
impl<'a, T: ZRes, F> Describe for Option<Write<'a, T, F>> {
    fn leaves(out: &mut Vec<LeafD>) {
        out.push(LeafD { res: T::IDX, write: true, kind: LKind::Optional });
    }
}
impl Describe for () {
    fn leaves(_: &mut Vec<LeafD>) {}
}
impl<T: ?Sized> Describe for PhantomData<T> {
    fn leaves(_: &mut Vec<LeafD>) {}
}

macro_rules! describe_tuple {
    ( $($t:ident),* ) => {
        impl<$($t: Describe),*> Describe for ( $($t,)* ) {
            fn leaves(out: &mut Vec<LeafD>) {
                $( <$t as Describe>::leaves(out); )*
            }
        }
    };
}
describe_tuple!(A);
describe_tuple!(A, B);
describe_tuple!(A, B, C);
describe_tuple!(A, B, C, D);
describe_tuple!(A, B, C, D, E);
describe_tuple!(A, B, C, D, E, F);
describe_tuple!(A, B, C, D, E, F, G);
describe_tuple!(A, B, C, D, E, F, G, H1);
describe_tuple!(A, B, C, D, E, F, G, H1, I);
describe_tuple!(A, B, C, D, E, F, G, H1, I, J);
describe_tuple!(A, B, C, D, E, F, G, H1, I, J, K);
describe_tuple!(A, B, C, D, E, F, G, H1, I, J, K, L);
describe_tuple!(A, B, C, D, E, F, G, H1, I, J, K, L, M);
describe_tuple!(A, B, C, D, E, F, G, H1, I, J, K, L, M, N);
describe_tuple!(A, B, C, D, E, F, G, H1, I, J, K, L, M, N, O);
describe_tuple!(A, B, C, D, E, F, G, H1, I, J, K, L, M, N, O, P);
describe_tuple!(A, B, C, D, E, F, G, H1, I, J, K, L, M, N, O, P, Q);
describe_tuple!(A, B, C, D, E, F, G, H1, I, J, K, L, M, N, O, P, Q, R);
describe_tuple!(A, B, C, D, E, F, G, H1, I, J, K, L, M, N, O, P, Q, R, S);
describe_tuple!(A, B, C, D, E, F, G, H1, I, J, K, L, M, N, O, P, Q, R, S, T);
describe_tuple!(A, B, C, D, E, F, G, H1, I, J, K, L, M, N, O, P, Q, R, S, T, U);
describe_tuple!(A, B, C, D, E, F, G, H1, I, J, K, L, M, N, O, P, Q, R, S, T, U, V);
describe_tuple!(A, B, C, D, E, F, G, H1, I, J, K, L, M, N, O, P, Q, R, S, T, U, V, W);
describe_tuple!(A, B, C, D, E, F, G, H1, I, J, K, L, M, N, O, P, Q, R, S, T, U, V, W, X);
describe_tuple!(A, B, C, D, E, F, G, H1, I, J, K, L, M, N, O, P, Q, R, S, T, U, V, W, X, Y);
describe_tuple!(A, B, C, D, E, F, G, H1, I, J, K, L, M, N, O, P, Q, R, S, T, U, V, W, X, Y, Z);

// ------------------------------------------------------------------------------------------------
// Derived structs (the derive macro's output is what is tested; `Describe` is written by hand)

#[derive(shred::SystemData)]
pub struct DNamed<'a> {
    pub a: Read<'a, L0>,
    pub b: Write<'a, L1>,
    pub c: Option<Read<'a, L2>>,
    pub m: PhantomData<L3>,
}
impl Describe for DNamed<'_> {
    fn leaves(o: &mut Vec<LeafD>) {
        o.push(LeafD { res: 0, write: false, kind: LKind::Default });
        o.push(LeafD { res: 1, write: true, kind: LKind::Default });
        o.push(LeafD { res: 2, write: false, kind: LKind::Optional });
    }
}

#[derive(shred::SystemData)]
pub struct DTuple<'a>(pub Read<'a, L4>, pub Write<'a, L5>, pub ReadExpect<'a, L6>);
impl Describe for DTuple<'_> {
    fn leaves(o: &mut Vec<LeafD>) {
        o.push(LeafD { res: 4, write: false, kind: LKind::Default });
        o.push(LeafD { res: 5, write: true, kind: LKind::Default });
        o.push(LeafD { res: 6, write: false, kind: LKind::Expect });
    }
}

#[derive(shred::SystemData)]
pub struct DGeneric<'a, T: ZRes + std::fmt::Debug> {
    pub x: Write<'a, T>,
    pub y: Read<'a, L7>,
}
impl<T: ZRes + std::fmt::Debug> Describe for DGeneric<'_, T> {
    fn leaves(o: &mut Vec<LeafD>) {
        o.push(LeafD { res: T::IDX, write: true, kind: LKind::Default });
        o.push(LeafD { res: 7, write: false, kind: LKind::Default });
    }
}

#[derive(shred::SystemData)]
pub struct DWhere<'a, T>
where
    T: ZRes,
{
    pub k: Read<'a, T>,
    pub o: Option<Write<'a, L8>>,
}
impl<T: ZRes> Describe for DWhere<'_, T> {
    fn leaves(o: &mut Vec<LeafD>) {
        o.push(LeafD { res: T::IDX, write: false, kind: LKind::Default });
        o.push(LeafD { res: 8, write: true, kind: LKind::Optional });
    }
}

/// A bare type-parameter field that is system data itself.
#[derive(shred::SystemData)]
pub struct DGenField<'a, D: SystemData<'a>> {
    pub base: Read<'a, L9>,
    pub extra: D,
    pub m: PhantomData<&'a ()>,
}
impl<'a, D: SystemData<'a> + Describe> Describe for DGenField<'a, D> {
    fn leaves(o: &mut Vec<LeafD>) {
        o.push(LeafD { res: 9, write: false, kind: LKind::Default });
        D::leaves(o);
    }
}

/// The same with the bound in a where clause.
#[derive(shred::SystemData)]
pub struct DGenWhere<'a, D>
where
    D: SystemData<'a>,
{
    pub extra: D,
    pub base: Write<'a, L9>,
}
impl<'a, D: SystemData<'a> + Describe> Describe for DGenWhere<'a, D> {
    fn leaves(o: &mut Vec<LeafD>) {
        D::leaves(o);
        o.push(LeafD { res: 9, write: true, kind: LKind::Default });
    }
}

/// Tuple struct whose only bound on the member type is in the where clause.
#[derive(shred::SystemData)]
pub struct DGenWhereTup<'a, D>(pub D, pub PhantomData<&'a ()>)
where
    D: SystemData<'a>;
impl<'a, D: SystemData<'a> + Describe> Describe for DGenWhereTup<'a, D> {
    fn leaves(o: &mut Vec<LeafD>) {
        D::leaves(o);
    }
}

/// Extra lifetime besides the fetch lifetime.
#[derive(shred::SystemData)]
pub struct DTwoLt<'a, 'b> {
    pub a: WriteExpect<'a, L10>,
    pub r: Read<'a, L11>,
    pub m: PhantomData<&'b u8>,
}
impl Describe for DTwoLt<'_, '_> {
    fn leaves(o: &mut Vec<LeafD>) {
        o.push(LeafD { res: 10, write: true, kind: LKind::Expect });
        o.push(LeafD { res: 11, write: false, kind: LKind::Default });
    }
}

#[derive(shred::SystemData)]
pub struct DNest<'a> {
    pub inner: DNamed<'a>,
    pub t: DTuple<'a>,
    pub w: Write<'a, L12>,
    pub tup: (Read<'a, L13>, Option<Read<'a, L0>>),
}
impl Describe for DNest<'_> {
    fn leaves(o: &mut Vec<LeafD>) {
        DNamed::leaves(o);
        DTuple::leaves(o);
        o.push(LeafD { res: 12, write: true, kind: LKind::Default });
        o.push(LeafD { res: 13, write: false, kind: LKind::Default });
        o.push(LeafD { res: 0, write: false, kind: LKind::Optional });
    }
}

#[derive(shred::SystemData)]
pub struct DTupleGen<'a, T: ZRes>(pub Read<'a, T>, pub Option<Write<'a, L14>>, pub Write<'a, L15, H<15>>);
impl<T: ZRes> Describe for DTupleGen<'_, T> {
    fn leaves(o: &mut Vec<LeafD>) {
        o.push(LeafD { res: T::IDX, write: false, kind: LKind::Default });
        o.push(LeafD { res: 14, write: true, kind: LKind::Optional });
        o.push(LeafD { res: 15, write: true, kind: LKind::Custom(15) });
    }
}

#[derive(shred::SystemData)]
pub struct DCustom<'a> {
    pub a: Read<'a, L16, H<16>>,
    pub b: Write<'a, L17, H<17>>,
    pub c: Read<'a, L16>,
}
impl Describe for DCustom<'_> {
    fn leaves(o: &mut Vec<LeafD>) {
        o.push(LeafD { res: 16, write: false, kind: LKind::Custom(16) });
        o.push(LeafD { res: 17, write: true, kind: LKind::Custom(17) });
        o.push(LeafD { res: 16, write: false, kind: LKind::Default });
    }
}

/// Fields whose types are tuples mixing markers and resource-bearing members.
#[derive(shred::SystemData)]
pub struct DTupField<'a, U: 'static> {
    pub t: (Read<'a, L0>, PhantomData<U>),
    pub n: ((PhantomData<U>, Write<'a, L1>), (), PhantomData<&'a U>),
    pub m: (PhantomData<U>, PhantomData<u8>),
    pub o: (Option<Read<'a, L2>>, (PhantomData<U>,)),
}
impl<U: 'static> Describe for DTupField<'_, U> {
    fn leaves(o: &mut Vec<LeafD>) {
        o.push(LeafD { res: 0, write: false, kind: LKind::Default });
        o.push(LeafD { res: 1, write: true, kind: LKind::Default });
        o.push(LeafD { res: 2, write: false, kind: LKind::Optional });
    }
}

#[derive(shred::SystemData)]
pub struct DTupField2<'a>(pub (PhantomData<u32>, WriteExpect<'a, L3>, Read<'a, L4, H<4>>), pub PhantomData<&'a ()>, pub (Read<'a, L5>,));
impl Describe for DTupField2<'_> {
    fn leaves(o: &mut Vec<LeafD>) {
        o.push(LeafD { res: 3, write: true, kind: LKind::Expect });
        o.push(LeafD { res: 4, write: false, kind: LKind::Custom(4) });
        o.push(LeafD { res: 5, write: false, kind: LKind::Default });
    }
}

impl std::fmt::Debug for L18 {
    fn fmt(&self, f: &mut std::fmt::Formatter<'_>) -> std::fmt::Result {
        write!(f, "L18({})", self.tag)
    }
}

macro_rules! fam {
    ($name:ident, $ty:ty) => {
        pub struct $name;
        impl Fam for $name {
            type D<'a> = $ty;
        }
    };
}
fam!(FDNamed, DNamed<'a>);
fam!(FDTuple, DTuple<'a>);
fam!(FDGeneric, DGeneric<'a, L18>);
fam!(FDWhere, DWhere<'a, L19>);
fam!(FDGenField, DGenField<'a, Write<'a, L20>>);
fam!(FDGenField2, DGenField<'a, (Read<'a, L21>, DTuple<'a>, Option<Write<'a, L22>>)>);
fam!(FDGenWhere, DGenWhere<'a, (Read<'a, L20>, Option<Write<'a, L21>>)>);
fam!(FDGenWhereTup, DGenWhereTup<'a, Write<'a, L22, H<22>>>);
fam!(FDTwoLt, DTwoLt<'a, 'static>);
fam!(FDNest, DNest<'a>);
fam!(FDTupleGen, DTupleGen<'a, L23>);
fam!(FDCustom, DCustom<'a>);
fam!(FDTupField, DTupField<'a, String>);
fam!(FDTupField2, DTupField2<'a>);
fam!(FDInTuple, (DNamed<'a>, (DTuple<'a>, Write<'a, L24>), DGenField<'a, Read<'a, L25>>));

pub fn all_fams() -> Vec<FamEntry> {
    let mut v = generated_fams();
    v.push(fam_entry::<FDNamed>("DNamed", "derived named struct with Option and PhantomData fields"));
    v.push(fam_entry::<FDTuple>("DTuple", "derived tuple struct"));
    v.push(fam_entry::<FDGeneric>("DGeneric", "derived struct with a bounded type parameter"));
    v.push(fam_entry::<FDWhere>("DWhere", "derived struct with a where clause"));
    v.push(fam_entry::<FDGenField>("DGenField", "derived struct with a bare type-parameter field that is system data"));
    v.push(fam_entry::<FDGenField2>("DGenField2", "derived struct whose type-parameter field is a nested tuple with a derived struct"));
    v.push(fam_entry::<FDGenWhere>("DGenWhere", "derived struct with a type-parameter field whose SystemData bound is in a where clause"));
    v.push(fam_entry::<FDGenWhereTup>("DGenWhereTup", "derived tuple struct with a type-parameter member bounded in a where clause"));
    v.push(fam_entry::<FDTwoLt>("DTwoLt", "derived struct with an extra lifetime"));
    v.push(fam_entry::<FDNest>("DNest", "derived struct nesting derived structs and a tuple"));
    v.push(fam_entry::<FDTupleGen>("DTupleGen", "derived generic tuple struct with a custom setup handler"));
    v.push(fam_entry::<FDCustom>("DCustom", "derived struct with custom setup handlers, one resource twice"));
    v.push(fam_entry::<FDInTuple>("DInTuple", "tuple of derived structs"));
    v.push(fam_entry::<FDTupField>("DTupField", "derived named struct whose fields are tuples mixing PhantomData markers and resource-bearing members"));
    v.push(fam_entry::<FDTupField2>("DTupField2", "derived tuple struct with tuple-typed fields containing markers"));
    v
}

// ------------------------------------------------------------------------------------------------

pub struct ResEntry {
    pub rid: ResourceId,
    pub insert: fn(&mut World, u64),
    pub remove: fn(&mut World),
    pub tag: fn(&World) -> Option<u64>,
}

pub fn res_entry<T: ZRes>() -> ResEntry {
    ResEntry {
        rid: ResourceId::new::<T>(),
        insert: |w, t| {
            w.insert(T::with_tag(t));
        },
        remove: |w| {
            w.remove::<T>();
        },
        tag: |w| w.try_fetch::<T>().map(|g| g.tag()),
    }
}

pub struct FamEntry {
    pub name: &'static str,
    pub desc: &'static str,
    pub leaves: fn() -> Vec<LeafD>,
    pub reads: fn() -> Vec<ResourceId>,
    pub writes: fn() -> Vec<ResourceId>,
    /// fetch the type from the world, classify every cell while the value is alive, drop it
    pub fetch_probe: fn(&World, &[ResEntry]) -> Vec<Cell>,
    pub setup: fn(&mut World),
}

pub fn fam_entry<F: Fam>(name: &'static str, desc: &'static str) -> FamEntry {
    FamEntry {
        name,
        desc,
        leaves: || {
            let mut v = Vec::new();
            <F::D<'static> as Describe>::leaves(&mut v);
            v
        },
        reads: || <F::D<'static> as SystemData<'static>>::reads(),
        writes: || <F::D<'static> as SystemData<'static>>::writes(),
        fetch_probe: fetch_probe_impl::<F>,
        setup: setup_impl::<F>,
    }
}

fn fetch_probe_impl<F: Fam>(w: &World, tab: &[ResEntry]) -> Vec<Cell> {
    let d: F::D<'_> = w.system_data();
    let cells = probe(w, tab);
    drop(d);
    cells
}

fn setup_impl<F: Fam>(w: &mut World) {
    <F::D<'static> as SystemData<'static>>::setup(w)
}

pub fn probe(w: &World, tab: &[ResEntry]) -> Vec<Cell> {
    tab.iter()
        .map(|e| {
            // SAFETY: only the borrow flag is inspected
            match unsafe { w.try_fetch_internal(e.rid.clone()) } {
                None => Cell::Absent,
                Some(c) => {
                    if let Ok(g) = c.try_borrow_mut() {
                        drop(g);
                        Cell::Free
                    } else if let Ok(g) = c.try_borrow() {
                        drop(g);
                        Cell::Shared
                    } else {
                        Cell::Excl
                    }
                }
            }
        })
        .collect()
}

fn full_world(tab: &[ResEntry], absent: &[usize]) -> World {
    let mut w = World::empty();
    for (i, e) in tab.iter().enumerate() {
        if !absent.contains(&i) {
            (e.insert)(&mut w, 100 + i as u64);
        }
    }
    w
}

fn vio(class: &str, msg: String) -> Violation {
    Violation { prop: "C06".into(), class: class.into(), msg }
}

#[derive(Default)]
pub struct ZCount {
    pub cases: u64,
    pub crash_points: u64,
    pub optional_none: u64,
    pub setup_cases: u64,
    pub leaves: u64,
}

fn expected_cells(leaves: &[LeafD], absent: &[usize], n: usize) -> Vec<Cell> {
    let mut v = vec![Cell::Free; n];
    for &a in absent {
        v[a] = Cell::Absent;
    }
    for l in leaves {
        if v[l.res] == Cell::Absent {
            continue;
        }
        if l.write {
            v[l.res] = Cell::Excl;
        } else if v[l.res] != Cell::Excl {
            v[l.res] = Cell::Shared;
        }
    }
    v
}

/// One fetch case: `absent` resources are missing from a world that otherwise holds all 40.
pub fn check_fetch_case(f: &FamEntry, tab: &[ResEntry], absent: &[usize], cnt: &mut ZCount, out: &mut Vec<Violation>) {
    cnt.cases += 1;
    let leaves = (f.leaves)();
    let w = full_world(tab, absent);
    let must_panic = leaves.iter().any(|l| absent.contains(&l.res) && l.kind != LKind::Optional);
    let r = catch_unwind(AssertUnwindSafe(|| (f.fetch_probe)(&w, tab)));
    match (r, must_panic) {
        (Ok(cells), false) => {
            let want = expected_cells(&leaves, absent, tab.len());
            if cells != want {
                let diffs: Vec<String> = (0..tab.len()).filter(|&i| cells[i] != want[i]).map(|i| format!("res {}: real {:?}, declared {:?}", i, cells[i], want[i])).collect();
                out.push(vio("borrow-mismatch", format!("{} ({}) with absent {:?}: while the value is alive {}", f.name, f.desc, absent, diffs.join("; "))));
            }
            if leaves.iter().any(|l| absent.contains(&l.res)) {
                cnt.optional_none += 1;
            }
        }
        (Ok(_), true) => out.push(vio("missing-resource-not-reported", format!("{} with absent {:?}: fetch returned although a non-optional member's resource is missing", f.name, absent))),
        (Err(p), false) => out.push(vio("fetch-panicked", format!("{} with absent {:?}: fetch panicked: {}", f.name, absent, crate::util::payload_string(&p).lines().next().unwrap_or("")))),
        (Err(_), true) => {
            // the crash point: earlier members' guards were already taken
            let first_bad = leaves.iter().position(|l| absent.contains(&l.res) && l.kind != LKind::Optional).unwrap_or(0);
            if first_bad > 0 {
                cnt.crash_points += 1;
            }
        }
    }
    // released: after drop, and after the caught mid-fetch panic, every cell is free
    let after = probe(&w, tab);
    for (i, c) in after.iter().enumerate() {
        if matches!(c, Cell::Shared | Cell::Excl) {
            out.push(vio("not-released", format!("{} with absent {:?}: resource {} is still borrowed ({:?}) after the value was dropped / the fetch unwound", f.name, absent, i, c)));
        }
    }
}

/// A conflicting borrow held by somebody else while the type is fetched: the fetch must panic
/// (also for the `Option` forms - `None` is only for an absent resource), must not return an
/// aliasing value, and must leave nothing but the outside guard behind.
pub fn check_conflict_case(f: &FamEntry, tab: &[ResEntry], res: usize, outside_excl: bool, cnt: &mut ZCount, out: &mut Vec<Violation>) {
    cnt.cases += 1;
    let leaves = (f.leaves)();
    let w = full_world(tab, &[]);
    // SAFETY: only the borrow flag is used
    let cell = unsafe { w.try_fetch_internal(tab[res].rid.clone()) }.expect("present");
    let must_panic = leaves.iter().any(|l| l.res == res && (outside_excl || l.write));
    let (r, after) = if outside_excl {
        let g = cell.borrow_mut();
        let r = catch_unwind(AssertUnwindSafe(|| (f.fetch_probe)(&w, tab)));
        let after = probe(&w, tab);
        drop(g);
        (r, after)
    } else {
        let g = cell.borrow();
        let r = catch_unwind(AssertUnwindSafe(|| (f.fetch_probe)(&w, tab)));
        let after = probe(&w, tab);
        drop(g);
        (r, after)
    };
    match (r, must_panic) {
        (Ok(_), true) => out.push(vio(
            "conflict-not-reported",
            format!("{} ({}): resource {} is {} borrowed by someone else and the type declares it, yet fetch returned a value", f.name, f.desc, res, if outside_excl { "exclusively" } else { "shared" }),
        )),
        (Err(p), false) => out.push(vio("fetch-panicked", format!("{}: fetch panicked although the outside shared borrow of resource {} is compatible: {}", f.name, res, crate::util::payload_string(&p).lines().next().unwrap_or(""))),),
        (Err(_), true) => cnt.crash_points += 1,
        (Ok(_), false) => {}
    }
    for (i, c) in after.iter().enumerate() {
        let want = if i == res { if outside_excl { Cell::Excl } else { Cell::Shared } } else { Cell::Free };
        if *c != want {
            out.push(vio("not-released", format!("{}: with resource {} borrowed outside, resource {} is {:?} after the fetch ended (expected {:?})", f.name, res, i, c, want)));
        }
    }
}

pub fn check_declared(f: &FamEntry, tab: &[ResEntry], cnt: &mut ZCount, out: &mut Vec<Violation>) {
    cnt.cases += 1;
    let leaves = (f.leaves)();
    cnt.leaves += leaves.len() as u64;
    let want_r: Vec<ResourceId> = leaves.iter().filter(|l| !l.write).map(|l| tab[l.res].rid.clone()).collect();
    let want_w: Vec<ResourceId> = leaves.iter().filter(|l| l.write).map(|l| tab[l.res].rid.clone()).collect();
    // compared as sets: the property speaks of "the resources it reports", not of order or
    // multiplicity of the report
    let norm = |mut v: Vec<ResourceId>| {
        v.sort();
        v.dedup();
        v
    };
    let (want_r, want_w) = (norm(want_r), norm(want_w));
    let got_r = norm((f.reads)());
    let got_w = norm((f.writes)());
    if got_r != want_r {
        out.push(vio("reads-mismatch", format!("{} ({}): reads() lists {} ids, the members read {} distinct resources; first difference at sorted position {}", f.name, f.desc, got_r.len(), want_r.len(), first_diff(&got_r, &want_r))));
    }
    if got_w != want_w {
        out.push(vio("writes-mismatch", format!("{} ({}): writes() lists {} ids, the members write {} distinct resources; first difference at sorted position {}", f.name, f.desc, got_w.len(), want_w.len(), first_diff(&got_w, &want_w))));
    }
}

fn first_diff(a: &[ResourceId], b: &[ResourceId]) -> usize {
    a.iter().zip(b.iter()).position(|(x, y)| x != y).unwrap_or(a.len().min(b.len()))
}

/// Setup on a world in which `present` resources exist (identity-tracked by their tags).
pub fn check_setup_case(f: &FamEntry, tab: &[ResEntry], present: &[usize], cnt: &mut ZCount, out: &mut Vec<Violation>) {
    cnt.cases += 1;
    cnt.setup_cases += 1;
    let leaves = (f.leaves)();
    let mut w = World::empty();
    for &i in present {
        (tab[i].insert)(&mut w, 100 + i as u64);
    }
    let calls0: Vec<u64> = HCALLS.iter().map(|c| c.load(Ordering::SeqCst)).collect();
    let r = catch_unwind(AssertUnwindSafe(|| (f.setup)(&mut w)));
    if r.is_err() {
        out.push(vio("setup-panicked", format!("{}: setup panicked on a world with {:?} present", f.name, present)));
        return;
    }
    // reference: the composition of the members' setups, in whatever order: a resource that was
    // there keeps its value; an absent one is created by one of the default-providing / custom
    // members that name it (whichever comes first in the order the implementation chose) and by
    // nobody else
    let mut want_calls = vec![0u64; 64];
    let mut creators: Vec<Vec<u64>> = vec![Vec::new(); tab.len()];
    for l in &leaves {
        match l.kind {
            LKind::Default => creators[l.res].push(0),
            LKind::Custom(k) => {
                want_calls[k] += 1;
                creators[l.res].push(MARK + k as u64);
            }
            LKind::Expect | LKind::Optional => {}
        }
    }
    for (i, e) in tab.iter().enumerate() {
        let got = (e.tag)(&w);
        let ok = if present.contains(&i) {
            got == Some(100 + i as u64)
        } else if creators[i].is_empty() {
            got.is_none()
        } else {
            got.map(|v| creators[i].contains(&v)).unwrap_or(false)
        };
        if !ok {
            out.push(vio(
                "setup-world",
                format!(
                    "{} ({}): after setup on a world with {:?} present, resource {} holds {:?}; the composition of the members' setups leaves {}",
                    f.name,
                    f.desc,
                    present,
                    i,
                    got,
                    if present.contains(&i) { format!("the value it had ({})", 100 + i as u64) } else if creators[i].is_empty() { "it absent".to_string() } else { format!("one of {:?}", creators[i]) }
                ),
            ));
        }
    }
    for k in 0..64 {
        let d = HCALLS[k].load(Ordering::SeqCst) - calls0[k];
        if d != want_calls[k] {
            out.push(vio(
                "setup-handler-calls",
                format!("{} ({}): setup on a world with {:?} present called the user's setup handler #{} {} time(s), the type has {} member(s) using it", f.name, f.desc, present, k, d, want_calls[k]),
            ));
        }
    }
}

/// The complete enumeration for one type: declared lists, all present, each member's resource
/// absent in turn, setup on the empty world and on two partly filled ones.
pub fn check_family(f: &FamEntry, tab: &[ResEntry], cnt: &mut ZCount) -> Vec<Violation> {
    let mut out = Vec::new();
    check_declared(f, tab, cnt, &mut out);
    check_fetch_case(f, tab, &[], cnt, &mut out);
    let leaves = (f.leaves)();
    let mut seen: Vec<usize> = Vec::new();
    for l in &leaves {
        if !seen.contains(&l.res) {
            seen.push(l.res);
            check_fetch_case(f, tab, &[l.res], cnt, &mut out);
            check_conflict_case(f, tab, l.res, true, cnt, &mut out);
            check_conflict_case(f, tab, l.res, false, cnt, &mut out);
        }
    }
    check_setup_case(f, tab, &[], cnt, &mut out);
    let all: Vec<usize> = (0..tab.len()).collect();
    check_setup_case(f, tab, &all, cnt, &mut out);
    let half: Vec<usize> = seen.iter().copied().step_by(2).collect();
    check_setup_case(f, tab, &half, cnt, &mut out);
    out
}

/// Seeded part: subsets of absent resources / present resources beyond single failures.
pub fn check_sampled(f: &FamEntry, tab: &[ResEntry], rng: &mut Rng, cnt: &mut ZCount) -> (Vec<Violation>, serde_json::Value) {
    let mut out = Vec::new();
    let leaves = (f.leaves)();
    let mut used: Vec<usize> = leaves.iter().map(|l| l.res).collect();
    used.sort();
    used.dedup();
    let mut absent: Vec<usize> = used.iter().copied().filter(|_| rng.chance(1, 3)).collect();
    if rng.chance(1, 4) {
        absent.push(26 + rng.below(14) as usize);
    }
    check_fetch_case(f, tab, &absent, cnt, &mut out);
    let present: Vec<usize> = (0..tab.len()).filter(|_| rng.chance(1, 2)).collect();
    check_setup_case(f, tab, &present, cnt, &mut out);
    (out, json!({"type": f.name, "absent": absent, "present_before_setup": present}))
}

// ------------------------------------------------------------------------------------------------
// driver glue (family "Z")

use crate::dfamily::{Replay, Stats};
use crate::run::StratSpec;

pub fn sampled_count(thorough: bool) -> u64 {
    if thorough { 400_000 } else { 20_000 }
}

fn z_replay(f: &FamEntry, mode: &str, seed: u64, v: &Violation) -> Replay {
    Replay {
        property: "C06".into(),
        family: "Z".into(),
        engine: "W".into(),
        mode: mode.into(),
        seed,
        scenario: json!({"type": f.name, "what": f.desc}),
        strategy: StratSpec::NoPreempt,
        run_seed: seed,
        trace: None,
        class: v.class.clone(),
        msg: v.msg.clone(),
        digest: 0,
    }
}

fn note(st: &mut Stats, cnt: &ZCount) {
    st.runs += cnt.cases;
    Stats::bump(&mut st.faults, "fetch_crash_point_with_guards_held", cnt.crash_points);
    Stats::bump(&mut st.faults, "optional_member_absent", cnt.optional_none);
    Stats::bump(&mut st.extra, "setup_cases", cnt.setup_cases);
    Stats::bump(&mut st.extra, "leaves_described", cnt.leaves);
}

/// index < number of types: the complete enumeration for that type; beyond: seeded sampling.
pub fn explore(index: u64, seed: u64, thorough: bool, st: &mut Stats) -> Option<Vec<Replay>> {
    let fams = all_fams();
    let tab = res_table();
    let n = fams.len() as u64;
    if index >= n + sampled_count(thorough) {
        return None;
    }
    st.scenarios += 1;
    if st.seeds == 0 {
        st.first_seed = seed;
    }
    st.seeds += 1;
    let mut cnt = ZCount::default();
    let mut found = Vec::new();
    if index < n {
        let f = &fams[index as usize];
        let vs = check_family(f, &tab, &mut cnt);
        // every (type, failing member) pair is a distinct non-trivial case
        for k in 0..cnt.cases {
            st.nontrivial.insert(crate::res::mix(index, k));
        }
        Stats::bump(&mut st.extra, "types_enumerated", 1);
        if st.samples.is_empty() {
            st.samples.push(json!({"type": f.name, "what": f.desc, "leaves": (f.leaves)().iter().map(|l| format!("{}{}:{:?}", if l.write { "W" } else { "R" }, l.res, l.kind)).collect::<Vec<_>>()}));
        }
        for v in vs {
            Stats::bump(&mut st.class_hits, &v.class, 1);
            if !found.iter().any(|r: &Replay| r.class == v.class) {
                found.push(z_replay(f, "enum", seed, &v));
            }
        }
    } else {
        let mut rng = Rng::sub(seed, 3);
        let f = &fams[rng.below(n) as usize];
        let (vs, sample) = check_sampled(f, &tab, &mut rng, &mut cnt);
        st.nontrivial.insert(crate::plan::fnv(sample.to_string().as_bytes()));
        if st.samples.len() < 3 {
            st.samples.push(sample);
        }
        for v in vs {
            Stats::bump(&mut st.class_hits, &v.class, 1);
            if !found.iter().any(|r: &Replay| r.class == v.class) {
                found.push(z_replay(f, "sampled", seed, &v));
            }
        }
    }
    note(st, &cnt);
    Some(found)
}

pub fn eval_replay(r: &Replay) -> crate::dfamily::EvalOut {
    let fams = all_fams();
    let tab = res_table();
    let name = r.scenario.get("type").and_then(|x| x.as_str()).unwrap_or("");
    let mut cnt = ZCount::default();
    let mut vs = Vec::new();
    if let Some(f) = fams.iter().find(|f| f.name == name) {
        if r.mode == "c13-setup" {
            let mut out = Vec::new();
            check_setup_case(f, &tab, &[], &mut cnt, &mut out);
            let all: Vec<usize> = (0..tab.len()).collect();
            check_setup_case(f, &tab, &all, &mut cnt, &mut out);
            let mut rng = Rng::sub(r.seed, 5);
            let present: Vec<usize> = (0..tab.len()).filter(|_| rng.chance(1, 2)).collect();
            check_setup_case(f, &tab, &present, &mut cnt, &mut out);
            for mut v in out {
                v.prop = "C13".into();
                v.class = format!("typed-{}", v.class);
                vs.push(v);
            }
        } else if r.mode == "sampled" {
            // the sampled case is a function of the seed; the type is re-drawn from it
            let mut rng = Rng::sub(r.seed, 3);
            let f2 = &fams[rng.below(fams.len() as u64) as usize];
            vs = check_sampled(f2, &tab, &mut rng, &mut cnt).0;
        } else {
            vs = check_family(f, &tab, &mut cnt);
        }
    }
    crate::dfamily::EvalOut { violations: vs, digest: 0, trace: vec![], steps: cnt.cases }
}

/// C13 borrows the setup half of the enumeration: after `setup` of a library / derived
/// system-data type every default-providing leaf exists, nothing existing is clobbered, the
/// optional / expecting leaves create nothing.
pub fn explore_setup_for_c13(index: u64, seed: u64, st: &mut Stats) -> Vec<Replay> {
    let fams = all_fams();
    let tab = res_table();
    let mut found = Vec::new();
    if index >= fams.len() as u64 {
        return found;
    }
    let f = &fams[index as usize];
    let mut cnt = ZCount::default();
    let mut out = Vec::new();
    check_setup_case(f, &tab, &[], &mut cnt, &mut out);
    let all: Vec<usize> = (0..tab.len()).collect();
    check_setup_case(f, &tab, &all, &mut cnt, &mut out);
    let mut rng = Rng::sub(seed, 5);
    let present: Vec<usize> = (0..tab.len()).filter(|_| rng.chance(1, 2)).collect();
    check_setup_case(f, &tab, &present, &mut cnt, &mut out);
    st.runs += cnt.cases;
    Stats::bump(&mut st.extra, "typed_setup_cases", cnt.setup_cases);
    for mut v in out {
        v.prop = "C13".into();
        v.class = format!("typed-{}", v.class);
        Stats::bump(&mut st.class_hits, &v.class, 1);
        if !found.iter().any(|r: &Replay| r.class == v.class) {
            let mut r = z_replay(f, "c13-setup", seed, &v);
            r.property = "C13".into();
            found.push(r);
        }
    }
    found
}
