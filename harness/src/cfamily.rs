//! C19 (the plan is a deterministic function of the registration sequence) and
//! C20 (the printed par/seq plan is total and matches the executed plan).
//!
//! C19: the nondeterminism is environmental and the simulator owns it: hash
//! keys (ahash's random-source seam), the assignment of concrete types /
//! dynamic ids to logical resources (which permutes the sorted id lists), system
//! names, the order of declared lists, the build (compared across binaries by
//! the driver through layout digests). Schedules play no role and none is
//! claimed.
//!
//! C20: the text is parsed and compared position by position with the layout
//! that is really executed; it is also used as an interleaving specification
//! for simulated histories of that dispatcher.

use detsim::Rng;
use serde_json::json;

use crate::build::{build, BuildOpts, Built};
use crate::dfamily::{gen_for, EvalOut, Replay, Stats};
use crate::oracle::Violation;
use crate::plan::*;
use crate::res::RKey;
use crate::run::StratSpec;

fn vio(prop: &str, class: &str, msg: String) -> Violation {
    Violation { prop: prop.into(), class: class.into(), msg }
}

// ------------------------------------------------------------------------------------------------
// transformations that must not change the plan

fn map_regs(regs: &mut [Reg], f: &mut dyn FnMut(&mut Reg)) {
    for r in regs.iter_mut() {
        f(r);
        if let Reg::Batch { inner, .. } | Reg::TlDisp { inner } = r {
            map_regs(inner, f);
        }
    }
}

/// Rename every system (consistently with the dependency lists); systems nobody depends on
/// may become anonymous.
pub fn rename(sc: &Scenario, rng: &mut Rng) -> Scenario {
    let mut s = sc.clone();
    fn go(regs: &mut [Reg], rng: &mut Rng, counter: &mut u64) {
        let depended: Vec<String> = regs
            .iter()
            .flat_map(|r| match r {
                Reg::Sys { deps, .. } | Reg::Batch { deps, .. } => deps.clone(),
                _ => vec![],
            })
            .collect();
        let mut ren: Vec<(String, String)> = Vec::new();
        for r in regs.iter_mut() {
            if let Reg::Sys { name, .. } | Reg::Batch { name, .. } = r {
                if name.is_empty() {
                    // an anonymous system may also get a name
                    if rng.chance(1, 3) {
                        *counter += 1;
                        *name = format!("given {}", counter);
                    }
                    continue;
                }
                let new = if !depended.contains(name) && rng.chance(1, 3) {
                    String::new()
                } else {
                    *counter += 1;
                    format!("{}{}", ["n", "re/named-", "q q", "Z"][rng.below(4) as usize], counter)
                };
                ren.push((name.clone(), new.clone()));
                *name = new;
            }
        }
        for r in regs.iter_mut() {
            match r {
                Reg::Sys { deps, .. } | Reg::Batch { deps, .. } => {
                    for d in deps.iter_mut() {
                        if let Some((_, n)) = ren.iter().find(|(o, _)| o == d) {
                            *d = n.clone();
                        }
                    }
                }
                _ => {}
            }
            if let Reg::Batch { inner, .. } | Reg::TlDisp { inner } = r {
                go(inner, rng, counter);
            }
        }
    }
    let mut c = 0;
    go(&mut s.regs, rng, &mut c);
    s
}

/// Another injective assignment of (type, dynamic id) pairs to the logical resources; the
/// resources that controllers declare stay expressible as static types.
pub fn relabel(sc: &Scenario, rng: &mut Rng) -> Scenario {
    let mut s = sc.clone();
    let n = sc.resmap.len();
    let mut ctl_used = vec![false; n];
    map_regs(&mut s.regs, &mut |r| {
        if let Reg::Batch { ctl_read, ctl_write, .. } = r {
            for l in [ctl_read, ctl_write].into_iter().flatten() {
                ctl_used[*l] = true;
            }
        }
        if let Reg::Sys { typed: true, reads, writes, .. } = r {
            for l in reads.iter().chain(writes.iter()) {
                ctl_used[*l] = true;
            }
        }
    });
    let mut okk: Vec<RKey> = (0..4u8).map(|ty| RKey { ty, dynid: 0 }).collect();
    rng.shuffle(&mut okk);
    let mut all: Vec<RKey> = Vec::new();
    for ty in 0..8u8 {
        for d in 0..4u64 {
            all.push(RKey { ty, dynid: d });
        }
    }
    rng.shuffle(&mut all);
    let mut m: Vec<Option<RKey>> = vec![None; n];
    if ctl_used.iter().filter(|x| **x).count() > okk.len() {
        return s;
    }
    for l in 0..n {
        if ctl_used[l] {
            m[l] = okk.pop();
        }
    }
    for l in 0..n {
        if m[l].is_none() {
            let k = all.iter().copied().find(|k| !m.contains(&Some(*k))).unwrap();
            m[l] = Some(k);
        }
    }
    s.resmap = m.into_iter().map(|k| k.unwrap()).collect();
    s
}

/// Permute (and occasionally duplicate an entry of) every system's declared read / write lists.
pub fn permute_lists(sc: &Scenario, rng: &mut Rng) -> Scenario {
    let mut s = sc.clone();
    map_regs(&mut s.regs, &mut |r| {
        if let Reg::Sys { reads, writes, .. } = r {
            rng.shuffle(reads);
            rng.shuffle(writes);
        }
        // who depends on whom is part of the registration sequence, the order in which the
        // names are listed (repeats included) is not
        if let Reg::Sys { deps, .. } | Reg::Batch { deps, .. } = r {
            rng.shuffle(deps);
        }
    });
    s
}

pub fn rehash(sc: &Scenario, rng: &mut Rng) -> Scenario {
    let mut s = sc.clone();
    s.hash_seed = rng.next_u64();
    s
}

fn canon(b: &Built) -> String {
    b.layout.canonical()
}

fn build_plain(sc: &Scenario) -> Built {
    build(sc, &BuildOpts::default())
}

/// The canonical layout of a scenario (used by the cross-build comparison as well).
pub fn layout_digest(sc: &Scenario) -> (String, u64) {
    let b = build_plain(sc);
    let c = canon(&b);
    let d = fnv(c.as_bytes());
    crate::dfamily::eval_dispose(b);
    (c, d)
}

pub fn c19_variants(sc: &Scenario, seed: u64, thorough: bool) -> Vec<(&'static str, Scenario)> {
    let mut rng = Rng::sub(seed, 41);
    let k = if thorough { 8 } else { 3 };
    let mut v: Vec<(&'static str, Scenario)> = Vec::new();
    v.push(("same-sequence-built-again", sc.clone()));
    for _ in 0..k {
        v.push(("hash-keys", rehash(sc, &mut rng)));
    }
    v.push(("renamed", rename(sc, &mut rng)));
    for _ in 0..k {
        v.push(("relabelled-resources", relabel(sc, &mut rng)));
    }
    v.push(("permuted-declared-lists", permute_lists(sc, &mut rng)));
    // everything at once
    let mut all = rename(sc, &mut rng);
    all = relabel(&all, &mut rng);
    all = permute_lists(&all, &mut rng);
    all = rehash(&all, &mut rng);
    v.push(("all-transformations", all));
    v
}

pub fn check_c19(sc: &Scenario, seed: u64, thorough: bool, st: Option<&mut Stats>) -> Vec<Violation> {
    let mut out = Vec::new();
    let (base, bd) = layout_digest(sc);
    let mut n = 0u64;
    let mut counts: Vec<(&'static str, u64)> = Vec::new();
    for (what, v) in c19_variants(sc, seed, thorough) {
        let (c, _) = layout_digest(&v);
        n += 1;
        match counts.iter_mut().find(|x| x.0 == what) {
            Some(x) => x.1 += 1,
            None => counts.push((what, 1)),
        }
        if c != base {
            out.push(vio(
                "C19",
                &format!("plan-changed-{}", what),
                format!("the plan built from the registration sequence is {} ; after the transformation '{}' (which must not matter) it is {}", base, what, c),
            ));
        }
    }
    crate::driver::chain(bd);
    if let Some(st) = st {
        st.runs += n + 1;
        st.layouts.insert(bd);
        for (w, c) in counts {
            Stats::bump(&mut st.faults, &format!("env_variation_{}", w), c);
        }
    }
    out
}

// ------------------------------------------------------------------------------------------------
// C20

pub fn sanitize(n: &str) -> String {
    n.replace([' ', '-', '/'], "_")
}

/// The same name under any sanitiser that replaces at least blanks, dashes and slashes and at
/// most everything that is not alphanumeric.
fn loose(n: &str) -> String {
    n.chars().map(|c| if c.is_alphanumeric() { c } else { '_' }).collect()
}

pub fn token_matches(tok: &str, name: &str) -> bool {
    tok == sanitize(name) || (loose(tok) == loose(name) && !tok.contains([' ', '-', '/']))
}

/// Parse `seq![ par![ seq![ a, b, ], ], ]` into stage -> group -> tokens. Layout (line breaks,
/// indentation, padding, trailing commas) is the printer's business: the text is read as a
/// sequence of the tokens `seq![`, `par![`, `]`, `,` and names (maximal runs of characters that
/// are neither white space nor `,` nor `]`).
pub fn parse_plan(text: &str) -> Result<Vec<Vec<Vec<String>>>, String> {
    let mut toks: Vec<String> = Vec::new();
    let mut cur = String::new();
    for c in text.chars() {
        if c.is_whitespace() || c == ',' || c == ']' {
            if !cur.is_empty() {
                toks.push(std::mem::take(&mut cur));
            }
            if c == ']' {
                toks.push("]".into());
            }
        } else {
            cur.push(c);
        }
    }
    if !cur.is_empty() {
        toks.push(cur);
    }
    let mut stages: Vec<Vec<Vec<String>>> = Vec::new();
    let mut depth = 0;
    let mut closed = false;
    for (i, t) in toks.iter().enumerate() {
        match (depth, t.as_str()) {
            (0, "seq![") if !closed => depth = 1,
            (1, "par![") => {
                stages.push(Vec::new());
                depth = 2;
            }
            (2, "seq![") => {
                stages.last_mut().unwrap().push(Vec::new());
                depth = 3;
            }
            (3, "]") => depth = 2,
            (2, "]") => depth = 1,
            (1, "]") => {
                depth = 0;
                closed = true;
            }
            (3, tok) if tok != "seq![" && tok != "par![" => stages.last_mut().unwrap().last_mut().unwrap().push(tok.to_string()),
            _ => return Err(format!("token #{}: unexpected {:?} at nesting depth {}", i + 1, t, depth)),
        }
    }
    if depth != 0 || !closed {
        return Err("unbalanced brackets".into());
    }
    Ok(stages)
}

fn top_names(sc: &Scenario) -> Vec<String> {
    infos(&sc.regs).iter().filter(|i| i.parent.is_none() && i.kind != Kind::Tl).map(|i| i.name.clone()).collect()
}

pub fn check_c20(sc: &Scenario, seed: u64, mut st: Option<&mut Stats>) -> Vec<Violation> {
    let mut out = Vec::new();
    let mut rng = Rng::sub(seed, 43);
    let ntop = sc.regs.len();
    let print_after: Vec<usize> = (0..ntop).filter(|_| rng.chance(1, 4)).collect();
    // ill-formed registrations in between (rejected by a panic, caught): one id is used up each
    // time, everything else must be as if they had not been attempted
    let mut rejects: Vec<(usize, bool)> = Vec::new();
    if rng.chance(1, 3) {
        for k in 0..ntop {
            if rng.chance(1, 4) {
                rejects.push((k, rng.chance(1, 2)));
            }
        }
    }
    if let Some(st) = st.as_deref_mut() {
        if !rejects.is_empty() {
            Stats::bump(&mut st.faults, "rejected_registration_caught", rejects.len() as u64);
        }
    }
    let b = build(sc, &BuildOpts { capture_debug: true, do_setup: true, print_after: print_after.clone(), rejects });
    let inf = &b.ctx.infos;
    let mut unnamed = 0u64;
    for (ri, r) in &b.early_prints {
        match r {
            Err(p) => out.push(vio("C20", "format-panicked", format!("formatting the builder after registration #{} panicked: {}", ri, p.lines().next().unwrap_or("")))),
            Ok(t) => {
                match parse_plan(t) {
                    Err(e) => out.push(vio("C20", "unparsable", format!("text printed after registration #{}: {}", ri, e))),
                    Ok(p) => {
                        let listed: usize = p.iter().map(|s| s.iter().map(|g| g.len()).sum::<usize>()).sum();
                        let want = sc.regs[..=*ri].iter().filter(|r| matches!(r, Reg::Sys { .. } | Reg::Batch { .. })).count();
                        if listed != want {
                            out.push(vio("C20", "count", format!("after registration #{} the text lists {} systems, {} were registered", ri, listed, want)));
                        }
                    }
                }
            }
        }
    }
    let mut texts: Vec<(&str, Option<Result<String, String>>)> = vec![("{:?}", b.debug_text.clone()), ("{:#?}", b.debug_text_pretty.clone())];
    for (spec, r) in &b.debug_text_specs {
        texts.push((spec, Some(r.clone())));
    }
    for (which, txt) in texts.iter().map(|(w, t)| (*w, t)) {
        match txt {
            Some(Err(p)) => out.push(vio(
                "C20",
                "format-panicked",
                format!("formatting the builder with {} panicked: {} (registered names: {:?})", which, p.lines().next().unwrap_or(""), top_names(sc)),
            )),
            Some(Ok(t)) => match parse_plan(t) {
                Err(e) => out.push(vio("C20", "unparsable", format!("{}: {}", which, e))),
                Ok(plan) => {
                    // shape and every position against the executed layout
                    let lay = &b.layout.top;
                    let shape_t: Vec<Vec<usize>> = plan.iter().map(|s| s.iter().map(|g| g.len()).collect()).collect();
                    let shape_l: Vec<Vec<usize>> = lay.iter().map(|s| s.iter().map(|g| g.len()).collect()).collect();
                    if shape_t != shape_l {
                        out.push(vio("C20", "shape", format!("{}: the text has the shape {:?}, the executed plan {:?}", which, shape_t, shape_l)));
                        continue;
                    }
                    let mut seen_tokens: Vec<&String> = Vec::new();
                    for (si, s) in lay.iter().enumerate() {
                        for (gi, g) in s.iter().enumerate() {
                            for (pi, &sid) in g.iter().enumerate() {
                                let tok = &plan[si][gi][pi];
                                let name = &inf[sid].name;
                                if name.is_empty() {
                                    unnamed += 1;
                                    // any placeholder will do, but it must be a usable token
                                    if tok.chars().any(|c| c.is_whitespace()) {
                                        out.push(vio("C20", "placeholder", format!("{}: the placeholder {:?} for an unnamed system is not a single token", which, tok)));
                                    }
                                } else if !token_matches(tok, name) {
                                    out.push(vio(
                                        "C20",
                                        "wrong-position",
                                        format!("{}: stage {} group {} position {} of the text says {:?}; the dispatcher runs system {:?} (sanitised {:?}) there", which, si, gi, pi, tok, name, sanitize(name)),
                                    ));
                                }
                                seen_tokens.push(tok);
                            }
                        }
                    }
                }
            },
            None => {}
        }
    }
    if let Some(st) = st {
        st.runs += 2 + b.early_prints.len() as u64;
        Stats::bump(&mut st.extra, "formatted_midway", b.early_prints.len() as u64);
        Stats::bump(&mut st.extra, "unnamed_positions_checked", unnamed);
        st.layouts.insert(fnv(b.layout.canonical().as_bytes()));
    }
    crate::dfamily::eval_dispose(b);
    out
}

// ------------------------------------------------------------------------------------------------

fn gen_c(prop: &str, seed: u64) -> Scenario {
    let mut sc = gen_for(if prop == "C19" { "C19" } else { "C20" }, seed);
    sc.faults.clear();
    sc.lifecycle.clear();
    if prop == "C20" {
        // names that need sanitising in every way, and builders with nothing in them
        let mut rng = Rng::sub(seed, 44);
        if rng.chance(1, 40) {
            sc.regs.clear();
        }
    }
    sc
}

fn replay_of(prop: &str, seed: u64, sc: &Scenario, v: &Violation, thorough: bool) -> Replay {
    Replay {
        property: prop.into(),
        family: "C".into(),
        engine: "S".into(),
        mode: if thorough { "plan-thorough".into() } else { "plan-quick".into() },
        seed,
        scenario: serde_json::to_value(sc).unwrap(),
        strategy: StratSpec::NoPreempt,
        run_seed: seed,
        trace: None,
        class: v.class.clone(),
        msg: v.msg.clone(),
        digest: 0,
    }
}

pub fn explore(prop: &str, seed: u64, thorough: bool, st: &mut Stats) -> Vec<Replay> {
    let sc = gen_c(prop, seed);
    st.scenarios += 1;
    if st.seeds == 0 {
        st.first_seed = seed;
    }
    st.seeds += 1;
    if st.samples.len() < 2 {
        st.samples.push(json!({"seed": seed, "registration_sequence": sc.regs, "resmap": sc.resmap}));
    }
    let vs = if prop == "C19" { check_c19(&sc, seed, thorough, Some(st)) } else { check_c20(&sc, seed, Some(st)) };
    // distinct non-trivial = distinct registration sequences with at least two stages or a group of two
    let d = fnv(serde_json::to_string(&sc.regs).unwrap().as_bytes());
    if count_systems(&sc.regs) >= 2 {
        st.nontrivial.insert(d);
    }
    let mut found: Vec<Replay> = Vec::new();
    for v in vs {
        if v.prop == prop {
            Stats::bump(&mut st.class_hits, &v.class, 1);
            if !found.iter().any(|r| r.class == v.class) {
                found.push(replay_of(prop, seed, &sc, &v, thorough));
            }
        } else {
            Stats::bump(&mut st.other_prop, &v.prop, 1);
        }
    }
    found
}

pub fn eval_replay(r: &Replay) -> EvalOut {
    let sc: Scenario = serde_json::from_value(r.scenario.clone()).expect("scenario");
    let vs = if r.property == "C19" { check_c19(&sc, r.run_seed, r.mode == "plan-thorough", None) } else { check_c20(&sc, r.run_seed, None) };
    EvalOut { violations: vs, digest: 0, trace: vec![], steps: 0 }
}

// ------------------------------------------------------------------------------------------------
// cross-build digests

/// The scenario the cross-build comparison uses for a seed (no async, no faults: every build
/// must be able to run it).
pub fn xscenario(prop: &str, seed: u64) -> Option<Scenario> {
    let mut sc = gen_for(if prop == "C05" { "C05" } else { "C19" }, seed);
    if sc.asyncd {
        return None;
    }
    sc.faults.clear();
    sc.lifecycle.clear();
    sc.from_pool = None;
    Some(sc)
}

/// (canonical layout, layout digest, digest of the world and system states after the scenario's
/// calls dispatched sequentially)
pub fn xdigest(sc: &Scenario) -> (String, u64, u64) {
    let mut b = build_plain(sc);
    let c = canon(&b);
    let ld = fnv(c.as_bytes());
    let mut s2 = sc.clone();
    s2.calls = sc
        .calls
        .iter()
        .flat_map(|c| match c {
            Call::Dispatch => vec![Call::DispatchSeq, Call::DispatchTl],
            Call::DispatchPar => vec![Call::DispatchSeq],
            x => vec![*x],
        })
        .collect();
    crate::run::FREE_RUN.with(|f| f.set(true));
    let ro = crate::run::run_calls(&mut b, &s2, &StratSpec::NoPreempt, 0, None);
    crate::run::FREE_RUN.with(|f| f.set(false));
    let mut h = 0xcbf2_9ce4_8422_2325u64;
    let mut eat = |x: u64| {
        h ^= x;
        h = h.wrapping_mul(0x0000_0100_0000_01b3);
    };
    for w in &ro.final_world {
        eat(w.map(|c| c.v).unwrap_or(u64::MAX));
    }
    for s in &ro.final_states {
        eat(*s);
    }
    for o in &ro.obs {
        for x in o {
            eat(*x);
        }
    }
    crate::dfamily::eval_dispose(b);
    (c, ld, h)
}
