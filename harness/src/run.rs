//! One simulated execution of a scenario's call sequence under a strategy,
//! and the scheduling strategies (all of them priorities, never prohibitions).

use std::panic::{catch_unwind, AssertUnwindSafe};
use std::sync::atomic::Ordering;
use std::sync::Arc;

use detsim::{Rng, Strategy, TaskView};
use serde::{Deserialize, Serialize};

use crate::build::{reset_states, restore_world, snapshot_world, Built, Layout};
use crate::plan::{Call, FaultKind, Kind, Scenario, SysInfo};
use crate::res::{probe_cell, Cell, Core};
use crate::sys::*;

#[derive(Clone, Debug, Serialize, Deserialize, PartialEq)]
pub enum StratSpec {
    Random,
    LowSwitch(u32),
    MaxOverlap,
    Hold(usize),
    Pct(u32),
    RoundRobin,
    NoPreempt,
}

#[derive(Clone, Debug, Serialize, Deserialize)]
pub struct CallOut {
    pub call: Call,
    pub panic: Option<String>,
    pub cells_after: Vec<Cell>,
    pub runs_after: Vec<u64>,
    pub active_after: i64,
    pub first_seq: u64,
    pub last_seq: u64,
}

#[derive(Clone, Debug)]
pub struct RunOut {
    pub events: Vec<Event>,
    pub outcome: detsim::Outcome,
    pub trace: Vec<u32>,
    pub steps: u64,
    pub switches: u64,
    pub tasks: usize,
    pub escaped: Vec<String>,
    pub calls: Vec<CallOut>,
    pub final_world: Vec<Option<Core>>,
    pub final_states: Vec<u64>,
    pub obs: Vec<Vec<u64>>,
    pub canary_torn: u64,
    pub max_busy: u64,
    /// per scenario fault: was it delivered?
    pub fired: Vec<bool>,
}

// ------------------------------------------------------------------------------------------------
// Strategies

fn pick_max(opts: &[TaskView], pr: impl Fn(&TaskView) -> i32, rng: &mut Rng) -> usize {
    let best = opts.iter().map(&pr).max().unwrap();
    let cands: Vec<usize> = (0..opts.len()).filter(|&i| pr(&opts[i]) == best).collect();
    cands[rng.below(cands.len() as u64) as usize]
}

pub struct Random;
impl Strategy for Random {
    fn pick(&mut self, _s: u64, o: &[TaskView], r: &mut Rng) -> usize {
        r.below(o.len() as u64) as usize
    }
}

pub struct LowSwitch(pub u32);
impl Strategy for LowSwitch {
    fn pick(&mut self, _s: u64, o: &[TaskView], r: &mut Rng) -> usize {
        if o[0].is_current && !r.chance(self.0 as u64, 1000) {
            0
        } else {
            r.below(o.len() as u64) as usize
        }
    }
}

pub struct MaxOverlap;
impl Strategy for MaxOverlap {
    fn pick(&mut self, _s: u64, o: &[TaskView], r: &mut Rng) -> usize {
        pick_max(
            o,
            |t| match info_phase(t.info) {
                PH_AT_ENTER | PH_FETCHING => 3,
                PH_IN_WINDOW => 1,
                _ => 2,
            },
            r,
        )
    }
}

pub struct RoundRobin(pub usize);
impl Strategy for RoundRobin {
    fn pick(&mut self, _s: u64, o: &[TaskView], _r: &mut Rng) -> usize {
        let mut best: Option<usize> = None;
        for (i, t) in o.iter().enumerate() {
            if t.id > self.0 && best.map(|b| t.id < o[b].id).unwrap_or(true) {
                best = Some(i);
            }
        }
        let i = best.unwrap_or_else(|| (0..o.len()).min_by_key(|&i| o[i].id).unwrap());
        self.0 = o[i].id;
        i
    }
}

/// PCT-style: a random priority per task, d priority change points.
pub struct Pct {
    pub seed: u64,
    pub change: Vec<u64>,
    pub demoted: Vec<usize>,
}
impl Pct {
    pub fn new(seed: u64, d: u32, horizon: u64) -> Pct {
        let mut r = Rng::sub(seed, 77);
        Pct { seed, change: (0..d).map(|_| r.below(horizon.max(1))).collect(), demoted: vec![] }
    }
    fn prio(&self, id: usize) -> i32 {
        if let Some(p) = self.demoted.iter().position(|&x| x == id) {
            return -(1 + p as i32);
        }
        (crate::res::mix(self.seed, id as u64) % 1_000_000) as i32
    }
}
impl Strategy for Pct {
    fn pick(&mut self, s: u64, o: &[TaskView], _r: &mut Rng) -> usize {
        let best = |me: &Pct| (0..o.len()).max_by_key(|&i| me.prio(o[i].id)).unwrap();
        if self.change.contains(&s) {
            let b = o[best(self)].id;
            self.demoted.retain(|&x| x != b);
            self.demoted.push(b);
        }
        best(self)
    }
}

/// hold(v): rush then starve. Until v is inside its window, tasks about to enter a system that
/// is not on v's path wait (low priority), so nothing that could overlap v has come and gone;
/// while v is in its window v's task has the lowest priority and is resumed only when nothing
/// else can run. Afterwards uniform.
pub struct Hold {
    pub v: usize,
    pub ctx: Arc<Ctx>,
    pub onpath: Vec<bool>,
    pub seen: bool,
    pub done: bool,
    pub held_steps: u64,
}
impl Strategy for Hold {
    fn pick(&mut self, _s: u64, o: &[TaskView], r: &mut Rng) -> usize {
        if self.done {
            return r.below(o.len() as u64) as usize;
        }
        let v_in = self.ctx.states[self.v].in_window.load(Ordering::SeqCst);
        if v_in {
            self.seen = true;
            self.held_steps += 1;
            let v = self.v;
            return pick_max(
                o,
                |t| {
                    if info_sid(t.info) == Some(v) && matches!(info_phase(t.info), PH_FETCHING | PH_IN_WINDOW) {
                        0
                    } else {
                        2
                    }
                },
                r,
            );
        }
        if self.seen {
            self.done = true;
            return r.below(o.len() as u64) as usize;
        }
        let v = self.v;
        let onpath = &self.onpath;
        pick_max(
            o,
            |t| {
                if info_phase(t.info) == PH_AT_ENTER {
                    match info_sid(t.info) {
                        Some(x) if x == v => 3,
                        Some(x) if onpath.get(x).copied().unwrap_or(false) => 2,
                        _ => 0,
                    }
                } else {
                    2
                }
            },
            r,
        )
    }
}

/// Must x exit before v enters according to the executed layout (or does x contain v)?
pub fn on_path(infos: &[SysInfo], lay: &Layout, x: usize, v: usize) -> bool {
    if x == v {
        return true;
    }
    // ancestor chains (outermost first), ending with the system itself
    let chain = |mut s: usize| {
        let mut c = vec![s];
        while let Some(p) = infos[s].parent {
            c.push(p);
            s = p;
        }
        c.reverse();
        c
    };
    let cx = chain(x);
    let cv = chain(v);
    let mut i = 0;
    while i < cx.len() && i < cv.len() && cx[i] == cv[i] {
        i += 1;
    }
    if i == cx.len() {
        return true; // x is an ancestor (batch) of v
    }
    if i == cv.len() {
        return true; // x is inside the batch v: part of v
    }
    let (ax, av) = (cx[i], cv[i]);
    // both live in the same dispatcher
    if infos[ax].kind == Kind::Tl {
        return false;
    }
    if infos[av].kind == Kind::Tl {
        return true;
    }
    match (lay.pos[ax], lay.pos[av]) {
        (Some((sx, gx, px)), Some((sv, gv, pv))) => sx < sv || (sx == sv && gx == gv && px < pv),
        _ => false,
    }
}

/// Strategies that need no knowledge of the dispatcher (world / meta-table engines).
pub fn make_strategy_plain(spec: &StratSpec, seed: u64) -> Box<dyn Strategy> {
    match spec {
        StratSpec::LowSwitch(p) => Box::new(LowSwitch(*p)),
        StratSpec::RoundRobin => Box::new(RoundRobin(0)),
        StratSpec::NoPreempt => Box::new(detsim::NoPreempt),
        StratSpec::Pct(d) => Box::new(Pct::new(seed, *d, 120)),
        _ => Box::new(Random),
    }
}

pub fn make_strategy(spec: &StratSpec, seed: u64, ctx: &Arc<Ctx>, lay: &Layout) -> Box<dyn Strategy> {
    match spec {
        StratSpec::Random => Box::new(Random),
        StratSpec::LowSwitch(p) => Box::new(LowSwitch(*p)),
        StratSpec::MaxOverlap => Box::new(MaxOverlap),
        StratSpec::RoundRobin => Box::new(RoundRobin(0)),
        StratSpec::NoPreempt => Box::new(detsim::NoPreempt),
        StratSpec::Pct(d) => Box::new(Pct::new(seed, *d, 40 + 12 * ctx.infos.len() as u64)),
        StratSpec::Hold(v) => {
            let onpath = (0..ctx.infos.len()).map(|x| on_path(&ctx.infos, lay, x, *v)).collect();
            Box::new(Hold { v: *v, ctx: ctx.clone(), onpath, seen: false, done: false, held_steps: 0 })
        }
    }
}

// ------------------------------------------------------------------------------------------------

pub fn probe_all(ctx: &Ctx, w: &shred::World) -> Vec<Cell> {
    ctx.resmap.iter().map(|k| probe_cell(w, *k)).collect()
}

fn arm_faults(ctx: &Ctx, sc: &Scenario) {
    let mut d = ctx.directives.lock().unwrap();
    for f in &sc.faults {
        if f.sid < d.len() {
            d[f.sid].push(Directive { call: f.call, kind: f.kind, arg: f.arg });
        }
    }
    // rendezvous groups: arg = group index; need = number of members
    let ngroups = sc.faults.iter().filter(|f| f.kind == FaultKind::Rendezvous).map(|f| f.arg as usize + 1).max().unwrap_or(0);
    let mut rdv = ctx.rdv.lock().unwrap();
    for g in 0..ngroups {
        let need = sc.faults.iter().filter(|f| f.kind == FaultKind::Rendezvous && f.arg as usize == g).count();
        rdv.push(Arc::new(Rendezvous { need: std::sync::atomic::AtomicUsize::new(need), arrived: Arc::new(Default::default()) }));
    }
}

pub const MAX_STEPS: u64 = 400_000;

thread_local! {
    /// Run the next `run_calls` without a scheduler (only meaningful for sequential calls).
    pub static FREE_RUN: std::cell::Cell<bool> = const { std::cell::Cell::new(false) };
}

/// Execute the scenario's call sequence once. `replay` overrides the strategy.
pub fn run_calls(b: &mut Built, sc: &Scenario, spec: &StratSpec, seed: u64, replay: Option<Vec<u32>>) -> RunOut {
    let ctx = b.ctx.clone();
    restore_world(&ctx, &mut b.world, &b.snapshot);
    reset_states(&ctx);
    arm_faults(&ctx, sc);
    #[cfg(feature = "sim")]
    rayon::stats::reset();
    let strategy = make_strategy(spec, seed, &ctx, &b.layout);
    let cfg = detsim::Config { seed, strategy, replay, max_steps: MAX_STEPS };
    let mut calls: Vec<CallOut> = Vec::new();
    let disp = b.disp.as_mut().expect("dispatcher");
    let world = &b.world;
    #[cfg(feature = "par")]
    // Some(0): a worker of the dispatcher's own supplied pool calls dispatch; Some(n): a worker of
    // another pool of n threads
    let other_pool: Option<std::sync::Arc<rayon::ThreadPool>> = match sc.from_pool {
        Some(0) => b.pool.clone(),
        Some(n) => Some(std::sync::Arc::new(rayon::ThreadPoolBuilder::new().num_threads(n).build().expect("pool"))),
        None => None,
    };
    let ctx2 = ctx.clone();
    #[cfg(feature = "real")]
    let sched = detsim::ext::run_ext;
    #[cfg(not(feature = "real"))]
    let sched = detsim::run;
    // a free run (sequential calls only) needs no scheduler: scheduler points are switched off
    let free = FREE_RUN.with(|f| f.get());
    if free {
        ctx.mode.store(2, Ordering::SeqCst);
    }
    let mut body = || {
        detsim::set_info(PH_CALLER);
        for (ci, call) in sc.calls.iter().enumerate() {
            ctx.cur_call.store(ci, Ordering::SeqCst);
            let inst = ctx.next_inst.fetch_add(1, Ordering::SeqCst);
            ctx.top_inst.store(inst, Ordering::SeqCst);
            for i in ctx.infos.iter().filter(|i| i.parent.is_none()) {
                ctx.states[i.sid].occ.store(0, Ordering::SeqCst);
            }
            let first_seq = ctx.events.lock().unwrap().len() as u64;
            ctx.emit(Ev::CallBegin, usize::MAX, ci as u64);
            ctx.dispatching.store(true, Ordering::SeqCst);
            let mut do_call = || match call {
                Call::Dispatch => disp.dispatch(world),
                #[cfg(feature = "par")]
                Call::DispatchPar => disp.dispatch_par(world),
                #[cfg(not(feature = "par"))]
                Call::DispatchPar => disp.dispatch_seq(world),
                Call::DispatchSeq => disp.dispatch_seq(world),
                Call::DispatchTl => disp.dispatch_thread_local(world),
            };
            #[cfg(feature = "par")]
            let r = match &other_pool {
                Some(op) => {
                    // the caller of dispatch is a worker of another pool
                    let w = AssertSend(&mut do_call);
                    let ctx2 = ctx2.clone();
                    catch_unwind(AssertUnwindSafe(|| {
                        op.install(move || {
                            let w = w;
                            detsim::set_info(PH_CALLER);
                            ctx2.emit(Ev::CallBegin, usize::MAX, ci as u64);
                            (w.0)()
                        })
                    }))
                }
                None => catch_unwind(AssertUnwindSafe(&mut do_call)),
            };
            #[cfg(not(feature = "par"))]
            let r = catch_unwind(AssertUnwindSafe(&mut do_call));
            ctx.dispatching.store(false, Ordering::SeqCst);
            ctx.reap_pending();
            let panic = r.err().map(|p| crate::util::payload_string(&p));
            ctx.emit(if panic.is_some() { Ev::CallPanic } else { Ev::CallEnd }, usize::MAX, ci as u64);
            let last_seq = ctx.events.lock().unwrap().len() as u64;
            calls.push(CallOut {
                call: *call,
                panic,
                cells_after: probe_all(&ctx, world),
                runs_after: ctx.states.iter().map(|s| s.run.load(Ordering::SeqCst)).collect(),
                active_after: ctx.active.load(Ordering::SeqCst),
                first_seq,
                last_seq,
            });
            detsim::yield_with_info(PH_CALLER);
        }
    };
    let report = if free {
        body();
        detsim::Report { outcome: detsim::Outcome::Done, trace: vec![], steps: 0, switches: 0, tasks: 1, escaped_panics: vec![], max_live: 0 }
    } else {
        sched(cfg, body)
    };
    ctx.mode.store(0, Ordering::SeqCst);
    let events = std::mem::take(&mut *ctx.events.lock().unwrap());
    if std::env::var("VERIF_DUMP_EVENTS").is_ok() {
        for e in &events {
            println!("EV {:?} sid={} inst={} task={} worker={} aux={}", e.kind, e.sid as i32, e.inst, (e.task != 0) as u8, e.worker, e.aux);
        }
        println!("EVEND trace={:?}", report.trace);
    }
    let fired = {
        let d = ctx.directives.lock().unwrap();
        sc.faults.iter().map(|f| f.sid < d.len() && !d[f.sid].iter().any(|x| x.call == f.call && x.kind == f.kind)).collect()
    };
    let final_world = snapshot_world(&ctx, &mut b.world);
    #[cfg(feature = "sim")]
    let max_busy = rayon::stats::MAX_BUSY.load(Ordering::SeqCst);
    #[cfg(not(feature = "sim"))]
    let max_busy = 0;
    RunOut {
        events,
        outcome: report.outcome,
        trace: report.trace,
        steps: report.steps,
        switches: report.switches,
        tasks: report.tasks,
        escaped: report.escaped_panics,
        calls,
        final_world,
        final_states: ctx.states.iter().map(|s| s.state.load(Ordering::SeqCst)).collect(),
        obs: ctx.states.iter().map(|s| s.obs.lock().unwrap().clone()).collect(),
        canary_torn: ctx.canary_torn.load(Ordering::SeqCst),
        max_busy,
        fired,
    }
}

struct AssertSend<T>(T);
unsafe impl<T> Send for AssertSend<T> {}

/// Digest of the (system, event) order: "distinct interleavings" measure.
pub fn interleaving_digest(ev: &[Event]) -> u64 {
    let mut h = 0xcbf2_9ce4_8422_2325u64;
    for e in ev {
        for b in [(e.kind as u8) as u64, e.sid as u64] {
            h ^= b;
            h = h.wrapping_mul(0x0000_0100_0000_01b3);
        }
    }
    h
}

/// Full digest of an event log (kind, sid, inst, task, worker): replay equality.
pub fn log_digest(ev: &[Event]) -> u64 {
    let mut h = 0xcbf2_9ce4_8422_2325u64;
    for e in ev {
        #[cfg(feature = "real")]
        let task = (e.task != 0) as u64;
        #[cfg(not(feature = "real"))]
        let task = e.task as u64;
        for b in [(e.kind as u8) as u64, e.sid as u64, e.inst, task, e.worker as u64, e.aux] {
            h ^= b;
            h = h.wrapping_mul(0x0000_0100_0000_01b3);
        }
    }
    h
}
