//! C09: the world as a typed map. Histories of every map-like operation over
//! six resource types of different size and drop behaviour and four dynamic
//! ids, including every id-taking call with a mismatching type argument and
//! the injected callback faults (panic in `Default::default`, in the
//! `or_insert_with` closure, in `Drop` of a value being replaced or removed),
//! checked after every step against a reference `BTreeMap`.
//!
//! One task: every mutator takes `&mut World`, so there is no schedule
//! dimension here (said plainly in DESIGN.md); the simulator contributes the
//! seeded histories, the fault injection and the reference model.

use std::any::TypeId;
use std::collections::BTreeMap;
use std::panic::{catch_unwind, AssertUnwindSafe};
use std::sync::atomic::{AtomicU64, Ordering};
use std::sync::Mutex;

use detsim::Rng;
use serde::{Deserialize, Serialize};
use serde_json::json;
use shred::{Read, ReadExpect, Resource, ResourceId, World, Write};

use crate::dfamily::{EvalOut, Replay, Stats};
use crate::oracle::Violation;
use crate::run::StratSpec;

pub const NT: u8 = 6;
pub const ND: u64 = 4;

static NEXT_ID: AtomicU64 = AtomicU64::new(1);
static DROPS: Mutex<BTreeMap<(u8, u64), u32>> = Mutex::new(BTreeMap::new());
static MADE: Mutex<Vec<(u8, u64)>> = Mutex::new(Vec::new());
static PANIC_ON_DROP: Mutex<Option<(u8, u64)>> = Mutex::new(None);
static PANIC_IN_DEFAULT: AtomicU64 = AtomicU64::new(0);

fn made(t: u8) -> u64 {
    let id = NEXT_ID.fetch_add(1, Ordering::SeqCst);
    MADE.lock().unwrap().push((t, id));
    id
}

fn dropped(t: u8, id: u64) {
    *DROPS.lock().unwrap().entry((t, id)).or_insert(0) += 1;
    let mut p = PANIC_ON_DROP.lock().unwrap();
    if *p == Some((t, id)) && !std::thread::panicking() {
        *p = None;
        drop(p);
        panic!("HDROP injected panic in Drop of value ({}, {})", t, id);
    }
}

pub trait TVal: Resource + Default {
    const T: u8;
    fn new() -> Self;
    fn vid(&self) -> u64;
}

/// ZST: identity cannot be stored; every instance shares id 0 and only counts are checked.
pub struct VZ;
static Z_MADE: AtomicU64 = AtomicU64::new(0);
static Z_DROPPED: AtomicU64 = AtomicU64::new(0);
impl TVal for VZ {
    const T: u8 = 0;
    fn new() -> Self {
        Z_MADE.fetch_add(1, Ordering::SeqCst);
        VZ
    }
    fn vid(&self) -> u64 {
        0
    }
}
impl Drop for VZ {
    fn drop(&mut self) {
        Z_DROPPED.fetch_add(1, Ordering::SeqCst);
    }
}

macro_rules! tval {
    ($name:ident, $t:expr, { $($field:ident : $fty:ty = $init:expr),* }) => {
        pub struct $name { pub id: u64, $(pub $field: $fty),* }
        impl TVal for $name {
            const T: u8 = $t;
            fn new() -> Self { let id = made($t); $name { id, $($field: ($init)(id)),* } }
            fn vid(&self) -> u64 { self.id }
        }
        impl Drop for $name { fn drop(&mut self) { dropped($t, self.id); } }
    };
}
tval!(VS, 1, { b: u8 = |id: u64| id as u8 });
tval!(VA, 2, { pad: [u8; 120] = |id: u64| [id as u8; 120] });
tval!(VStr, 3, { s: String = |id: u64| format!("value-{}", id) });
tval!(VVec, 4, { v: Vec<u64> = |id: u64| vec![id; (id % 7) as usize + 1] });
tval!(VBox, 5, { f: Box<dyn Fn() -> u64 + Send + Sync> = |id: u64| Box::new(move || id * 3) as Box<dyn Fn() -> u64 + Send + Sync> });

macro_rules! dflt {
    ($($n:ident),*) => { $(
        impl Default for $n {
            fn default() -> Self {
                if PANIC_IN_DEFAULT.swap(0, Ordering::SeqCst) == 1 {
                    panic!("HDEFAULT injected panic in Default::default");
                }
                <$n as TVal>::new()
            }
        }
    )* };
}
dflt!(VZ, VS, VA, VStr, VVec, VBox);

macro_rules! with_t {
    ($t:expr, $T:ident => $body:expr) => {
        match $t {
            0 => { type $T = VZ; $body }
            1 => { type $T = VS; $body }
            2 => { type $T = VA; $body }
            3 => { type $T = VStr; $body }
            4 => { type $T = VVec; $body }
            _ => { type $T = VBox; $body }
        }
    };
}

fn rid(t: u8, d: u64) -> ResourceId {
    with_t!(t, T => ResourceId::new_with_dynamic_id::<T>(d))
}
fn tid(t: u8) -> TypeId {
    with_t!(t, T => TypeId::of::<T>())
}

#[derive(Clone, Copy, Debug, Serialize, Deserialize, PartialEq)]
pub enum Op {
    Insert(u8),
    InsertById(u8, u64, u8),
    Remove(u8),
    RemoveById(u8, u64, u8),
    EntryOrInsert(u8),
    EntryOrInsertWith(u8, bool),
    HasValue(u8),
    GetMut(u8),
    Fetch(u8),
    FetchMut(u8),
    TryFetch(u8),
    TryFetchMut(u8),
    TryFetchById(u8, u64, u8),
    TryFetchMutById(u8, u64, u8),
    Setup(u8, bool),
    SetupOption(u8),
    SetupExpect(u8),
    Exec(u8),
    /// insert over / remove a value whose Drop panics
    InsertDropPanic(u8),
    RemoveDropPanic(u8),
}

pub fn gen_ops(rng: &mut Rng) -> Vec<Op> {
    let n = 4 + rng.below(40) as usize;
    // few keys, so that slots are hit repeatedly
    let nt = 1 + rng.below(NT as u64) as u8;
    let nd = 1 + rng.below(ND);
    let mut v = Vec::new();
    for _ in 0..n {
        let t = rng.below(nt as u64) as u8;
        let d = rng.below(nd);
        let t2 = if rng.chance(1, 4) { rng.below(NT as u64) as u8 } else { t };
        v.push(match rng.below(26) {
            0 | 1 | 2 => Op::Insert(t),
            3 | 4 | 5 => Op::InsertById(t, d, t2),
            6 | 7 => Op::Remove(t),
            8 | 9 => Op::RemoveById(t, d, t2),
            10 => Op::EntryOrInsert(t),
            11 => Op::EntryOrInsertWith(t, rng.chance(1, 3)),
            12 => Op::HasValue(t),
            13 => Op::GetMut(t),
            14 => Op::Fetch(t),
            15 => Op::FetchMut(t),
            16 => Op::TryFetch(t),
            17 => Op::TryFetchMut(t),
            18 | 19 => Op::TryFetchById(t, d, t2),
            20 | 21 => Op::TryFetchMutById(t, d, t2),
            22 => Op::Setup(t, rng.chance(1, 3)),
            23 => {
                if rng.chance(1, 2) { Op::SetupOption(t) } else { Op::SetupExpect(t) }
            }
            24 => Op::Exec(t),
            _ => {
                if rng.chance(1, 2) { Op::InsertDropPanic(t) } else { Op::RemoveDropPanic(t) }
            }
        });
    }
    v
}

fn vio(class: &str, msg: String) -> Violation {
    Violation { prop: "C09".into(), class: class.into(), msg }
}

type Model = BTreeMap<(u8, u64), u64>;

fn drops_of(t: u8, id: u64) -> u32 {
    DROPS.lock().unwrap().get(&(t, id)).copied().unwrap_or(0)
}

/// Compare the whole world with the model: presence, type, identity of every slot.
fn check_world(w: &mut World, m: &Model, step: usize, op: &Op, out: &mut Vec<Violation>) {
    for t in 0..NT {
        for d in 0..ND {
            let has = w.has_value_raw(rid(t, d));
            let want = m.get(&(t, d));
            if has != want.is_some() {
                out.push(vio("presence", format!("step {} ({:?}): slot (type {}, dynamic id {}) present={}, reference map says {}", step, op, t, d, has, want.is_some())));
                continue;
            }
            if let Some(&vid) = want {
                let real_tid = w.get_mut_raw(rid(t, d)).map(|r| (*r).type_id());
                if real_tid != Some(tid(t)) {
                    out.push(vio("slot-type", format!("step {} ({:?}): the value stored under (type {}, dynamic id {}) does not have the type named by its id", step, op, t, d)));
                    continue;
                }
                let got = with_t!(t, T => w.try_fetch_by_id::<T>(rid(t, d)).map(|g| g.vid()));
                if got != Some(vid) {
                    out.push(vio("identity", format!("step {} ({:?}): slot (type {}, dynamic id {}) holds value {:?}, reference map says {}", step, op, t, d, got, vid)));
                }
                if t != 0 && drops_of(t, vid) != 0 {
                    out.push(vio("dropped-while-stored", format!("step {} ({:?}): value {} of type {} is stored in the world but was already dropped", step, op, vid, t)));
                }
            }
        }
    }
    for ((t, id), n) in DROPS.lock().unwrap().iter() {
        if *n > 1 {
            out.push(vio("double-drop", format!("step {} ({:?}): value {} of type {} was dropped {} times", step, op, id, t, n)));
        }
    }
}

#[derive(Default)]
pub struct W9Count {
    pub ops: u64,
    pub mismatch_calls: u64,
    pub panics_expected: u64,
    pub fault_default: u64,
    pub fault_closure: u64,
    pub fault_drop: u64,
}

/// Execute one history; returns the violations.
pub fn run_history(ops: &[Op], cnt: &mut W9Count) -> Vec<Violation> {
    let mut out = Vec::new();
    DROPS.lock().unwrap().clear();
    MADE.lock().unwrap().clear();
    Z_MADE.store(0, Ordering::SeqCst);
    Z_DROPPED.store(0, Ordering::SeqCst);
    *PANIC_ON_DROP.lock().unwrap() = None;
    PANIC_IN_DEFAULT.store(0, Ordering::SeqCst);
    let mut w = World::empty();
    let mut m: Model = BTreeMap::new();
    // values handed back to the harness (removed) are dropped by the harness right away
    for (step, op) in ops.iter().enumerate() {
        cnt.ops += 1;
        let before = m.clone();
        // (expected to panic, expected model afterwards, alternative model allowed after a fault)
        let mut expect_panic = false;
        let mut alt: Option<Model> = None;
        let mut observed: Option<String> = None; // textual observation compared with the expectation
        let mut expected_obs: Option<String> = None;
        let r = catch_unwind(AssertUnwindSafe(|| match *op {
            Op::Insert(t) => with_t!(t, T => {
                let v = <T as TVal>::new();
                let id = v.vid();
                m.insert((t, 0), id);
                w.insert(v);
            }),
            Op::InsertById(t, d, t2) => with_t!(t2, T => {
                let v = <T as TVal>::new();
                let id = v.vid();
                if t2 == t {
                    m.insert((t, d), id);
                } else {
                    expect_panic = true;
                    cnt.mismatch_calls += 1;
                }
                w.insert_by_id::<T>(rid(t, d), v);
            }),
            Op::Remove(t) => with_t!(t, T => {
                let want = m.remove(&(t, 0));
                let got = w.remove::<T>().map(|v| v.vid());
                observed = Some(format!("{:?}", got));
                expected_obs = Some(format!("{:?}", want));
            }),
            Op::RemoveById(t, d, t2) => with_t!(t2, T => {
                let want = if t2 == t {
                    m.remove(&(t, d))
                } else {
                    expect_panic = true;
                    cnt.mismatch_calls += 1;
                    None
                };
                let got = w.remove_by_id::<T>(rid(t, d)).map(|v| v.vid());
                observed = Some(format!("{:?}", got));
                expected_obs = Some(format!("{:?}", want));
            }),
            Op::EntryOrInsert(t) => with_t!(t, T => {
                let v = <T as TVal>::new();
                let id = v.vid();
                let want = *m.entry((t, 0)).or_insert(id);
                let got = w.entry::<T>().or_insert(v).vid();
                observed = Some(format!("{}", got));
                expected_obs = Some(format!("{}", want));
            }),
            Op::EntryOrInsertWith(t, panics) => with_t!(t, T => {
                let absent = !m.contains_key(&(t, 0));
                if panics && absent {
                    expect_panic = true;
                    cnt.fault_closure += 1;
                }
                let mut made_id = None;
                let g = w.entry::<T>().or_insert_with(|| {
                    if panics {
                        panic!("HCLOSURE injected panic in or_insert_with closure");
                    }
                    let v = <T as TVal>::new();
                    made_id = Some(v.vid());
                    v
                });
                let got = g.vid();
                drop(g);
                if absent {
                    m.insert((t, 0), made_id.unwrap_or(0));
                }
                observed = Some(format!("{}", got));
                expected_obs = Some(format!("{}", m[&(t, 0)]));
            }),
            Op::HasValue(t) => with_t!(t, T => {
                observed = Some(format!("{}", w.has_value::<T>()));
                expected_obs = Some(format!("{}", m.contains_key(&(t, 0))));
            }),
            Op::GetMut(t) => with_t!(t, T => {
                observed = Some(format!("{:?}", w.get_mut::<T>().map(|v| v.vid())));
                expected_obs = Some(format!("{:?}", m.get(&(t, 0))));
            }),
            Op::Fetch(t) => with_t!(t, T => {
                if !m.contains_key(&(t, 0)) {
                    expect_panic = true;
                }
                observed = Some(format!("{}", w.fetch::<T>().vid()));
                expected_obs = m.get(&(t, 0)).map(|x| format!("{}", x));
            }),
            Op::FetchMut(t) => with_t!(t, T => {
                if !m.contains_key(&(t, 0)) {
                    expect_panic = true;
                }
                observed = Some(format!("{}", w.fetch_mut::<T>().vid()));
                expected_obs = m.get(&(t, 0)).map(|x| format!("{}", x));
            }),
            Op::TryFetch(t) => with_t!(t, T => {
                observed = Some(format!("{:?}", w.try_fetch::<T>().map(|g| g.vid())));
                expected_obs = Some(format!("{:?}", m.get(&(t, 0))));
            }),
            Op::TryFetchMut(t) => with_t!(t, T => {
                observed = Some(format!("{:?}", w.try_fetch_mut::<T>().map(|g| g.vid())));
                expected_obs = Some(format!("{:?}", m.get(&(t, 0))));
            }),
            Op::TryFetchById(t, d, t2) => with_t!(t2, T => {
                if t2 != t {
                    expect_panic = true;
                    cnt.mismatch_calls += 1;
                }
                observed = Some(format!("{:?}", w.try_fetch_by_id::<T>(rid(t, d)).map(|g| g.vid())));
                expected_obs = Some(format!("{:?}", m.get(&(t, d))));
            }),
            Op::TryFetchMutById(t, d, t2) => with_t!(t2, T => {
                if t2 != t {
                    expect_panic = true;
                    cnt.mismatch_calls += 1;
                }
                observed = Some(format!("{:?}", w.try_fetch_mut_by_id::<T>(rid(t, d)).map(|g| g.vid())));
                expected_obs = Some(format!("{:?}", m.get(&(t, d))));
            }),
            Op::Setup(t, fault) => with_t!(t, T => {
                let absent = !m.contains_key(&(t, 0));
                if fault && absent {
                    PANIC_IN_DEFAULT.store(1, Ordering::SeqCst);
                    expect_panic = true;
                    cnt.fault_default += 1;
                }
                let next = NEXT_ID.load(Ordering::SeqCst);
                if absent && !(fault) {
                    // the default provider creates exactly one value with the next id
                    m.insert((t, 0), if t == 0 { 0 } else { next });
                }
                if rngless_even(step) {
                    w.setup::<Read<T>>();
                } else {
                    w.setup::<(Write<T>, Option<Read<T>>)>();
                }
            }),
            Op::SetupOption(t) => with_t!(t, T => {
                w.setup::<(Option<Read<T>>, Option<Write<T>>)>();
            }),
            Op::SetupExpect(t) => with_t!(t, T => {
                w.setup::<ReadExpect<T>>();
            }),
            Op::Exec(t) => with_t!(t, T => {
                let next = NEXT_ID.load(Ordering::SeqCst);
                if !m.contains_key(&(t, 0)) {
                    m.insert((t, 0), if t == 0 { 0 } else { next });
                }
                let got = w.exec(|d: Write<T>| d.vid());
                observed = Some(format!("{}", got));
                expected_obs = Some(format!("{}", m[&(t, 0)]));
            }),
            Op::InsertDropPanic(t) => with_t!(t, T => {
                let v = <T as TVal>::new();
                let id = v.vid();
                if let (Some(&old), true) = (m.get(&(t, 0)), t != 0) {
                    *PANIC_ON_DROP.lock().unwrap() = Some((t, old));
                    expect_panic = true;
                    cnt.fault_drop += 1;
                }
                // the old value's Drop panics: the new value is in place by then - or, for an
                // implementation that takes the old one out first, the slot is empty after the
                // unwind (both values dropped once; the final drop accounting sees to that).
                // Nothing else; and without the fault only "new value in place".
                let mut a = m.clone();
                a.insert((t, 0), id);
                if expect_panic {
                    let mut e = m.clone();
                    e.remove(&(t, 0));
                    alt = Some(e);
                }
                m = a;
                w.insert(v);
            }),
            Op::RemoveDropPanic(t) => with_t!(t, T => {
                if let (Some(&old), true) = (m.get(&(t, 0)), t != 0) {
                    *PANIC_ON_DROP.lock().unwrap() = Some((t, old));
                    cnt.fault_drop += 1;
                    expect_panic = true;
                }
                m.remove(&(t, 0));
                // the value is returned to the caller and dropped there: the panic is ours
                let v = w.remove::<T>();
                drop(v);
            }),
        }));
        *PANIC_ON_DROP.lock().unwrap() = None;
        PANIC_IN_DEFAULT.store(0, Ordering::SeqCst);
        let panicked = r.is_err();
        if expect_panic {
            cnt.panics_expected += 1;
        }
        let msg = r.as_ref().err().map(crate::util::payload_string).unwrap_or_default();
        let injected = msg.starts_with("HDROP") || msg.starts_with("HCLOSURE") || msg.starts_with("HDEFAULT");
        if panicked != expect_panic {
            out.push(vio(
                if panicked { "unexpected-panic" } else { "missing-panic" },
                format!("step {} ({:?}): panicked={} ({}), the reference map expects panicked={}", step, op, panicked, msg.lines().next().unwrap_or(""), expect_panic),
            ));
        }
        if panicked && !injected {
            // a refused call leaves the world as it was
            m = before.clone();
            alt = None;
        } else if panicked && injected {
            match op {
                Op::EntryOrInsertWith(..) | Op::Setup(..) => {
                    m = before.clone();
                }
                Op::InsertDropPanic(..) => {} // m = new, alt = old
                Op::RemoveDropPanic(..) => {}
                _ => {}
            }
        }
        if !panicked {
            if let (Some(o), Some(e)) = (&observed, &expected_obs) {
                if o != e {
                    out.push(vio("result", format!("step {} ({:?}): the call returned {}, the reference map gives {}", step, op, o, e)));
                }
            }
        }
        let mut vs = Vec::new();
        check_world(&mut w, &m, step, op, &mut vs);
        if !vs.is_empty() {
            if let Some(a) = &alt {
                let mut vs2 = Vec::new();
                check_world(&mut w, a, step, op, &mut vs2);
                if vs2.is_empty() {
                    m = a.clone();
                    vs.clear();
                }
            }
        }
        // a replaced / removed value has been dropped exactly once by now
        for (k, old) in before.iter() {
            if k.0 != 0 && m.get(k) != Some(old) && drops_of(k.0, *old) != 1 {
                vs.push(vio("replaced-value-drops", format!("step {} ({:?}): value {} of type {} left the world and was dropped {} time(s)", step, op, old, k.0, drops_of(k.0, *old))));
            }
        }
        let stop = !vs.is_empty();
        out.extend(vs);
        if stop || out.len() > 4 {
            break;
        }
    }
    drop(w);
    // every value is dropped exactly once
    for (t, id) in MADE.lock().unwrap().iter() {
        let n = drops_of(*t, *id);
        if n != 1 {
            out.push(vio("final-drops", format!("value {} of type {} was dropped {} time(s) by the end of the history (world dropped)", id, t, n)));
            break;
        }
    }
    if Z_MADE.load(Ordering::SeqCst) != Z_DROPPED.load(Ordering::SeqCst) {
        out.push(vio("final-drops", format!("{} zero-sized values were created, {} dropped", Z_MADE.load(Ordering::SeqCst), Z_DROPPED.load(Ordering::SeqCst))));
    }
    out
}

fn rngless_even(step: usize) -> bool {
    step % 2 == 0
}

pub fn explore(seed: u64, st: &mut Stats) -> Vec<Replay> {
    let mut rng = Rng::sub(seed, 11);
    let ops = gen_ops(&mut rng);
    st.scenarios += 1;
    if st.seeds == 0 {
        st.first_seed = seed;
    }
    st.seeds += 1;
    st.runs += 1;
    let mut cnt = W9Count::default();
    let vs = run_history(&ops, &mut cnt);
    st.steps += cnt.ops;
    Stats::bump(&mut st.faults, "mismatching_type_argument_calls", cnt.mismatch_calls);
    Stats::bump(&mut st.faults, "panic_in_default", cnt.fault_default);
    Stats::bump(&mut st.faults, "panic_in_or_insert_with_closure", cnt.fault_closure);
    Stats::bump(&mut st.faults, "panic_in_drop", cnt.fault_drop);
    Stats::bump(&mut st.extra, "operations", cnt.ops);
    Stats::bump(&mut st.extra, "calls_that_must_panic", cnt.panics_expected);
    let digest = crate::plan::fnv(serde_json::to_string(&ops).unwrap().as_bytes());
    st.inters.insert(digest);
    crate::driver::chain(crate::res::mix(digest, vs.len() as u64));
    if cnt.mismatch_calls + cnt.fault_default + cnt.fault_closure + cnt.fault_drop > 0 {
        st.nontrivial.insert(digest);
    }
    if st.samples.len() < 2 {
        st.samples.push(json!({"seed": seed, "history": ops}));
    }
    let mut found: Vec<Replay> = Vec::new();
    for v in vs {
        Stats::bump(&mut st.class_hits, &v.class, 1);
        if !found.iter().any(|r| r.class == v.class) {
            found.push(Replay {
                property: "C09".into(),
                family: "W9".into(),
                engine: "W".into(),
                mode: "history".into(),
                seed,
                scenario: json!({"ops": ops}),
                strategy: StratSpec::NoPreempt,
                run_seed: 0,
                trace: None,
                class: v.class.clone(),
                msg: v.msg.clone(),
                digest,
            });
        }
    }
    found
}

pub fn eval_replay(r: &Replay) -> EvalOut {
    let ops: Vec<Op> = serde_json::from_value(r.scenario["ops"].clone()).unwrap_or_default();
    let mut cnt = W9Count::default();
    let vs = run_history(&ops, &mut cnt);
    EvalOut { violations: vs, digest: crate::plan::fnv(serde_json::to_string(&ops).unwrap().as_bytes()), trace: vec![], steps: cnt.ops }
}
