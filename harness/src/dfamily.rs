//! The dispatcher family of checks (engine S): generated registration
//! sequences run on the real builder / dispatcher over the simulated pool.
//!
//! One *record* (`Replay`) = scenario + mode + strategy + run seed (+ choice
//! trace). `eval_replay` is a pure function of the record and the code; both
//! the search (`explore`) and replay / shrinking go through `eval_on`.

use std::collections::{BTreeMap, HashSet};
use std::sync::atomic::Ordering;

use detsim::Rng;
use serde::{Deserialize, Serialize};
use serde_json::json;

use crate::build::{build, BuildOpts, Built};
use crate::oracle::*;
use crate::plan::*;
use crate::run::*;

#[derive(Clone, Debug, Serialize, Deserialize)]
pub struct Replay {
    pub property: String,
    pub family: String,
    pub engine: String,
    /// "run": one simulated execution; "cmp": the execution compared with the sequential
    /// reference on the same dispatcher (C05); "static": build-time checks only
    #[serde(default = "default_mode")]
    pub mode: String,
    pub seed: u64,
    pub scenario: serde_json::Value,
    pub strategy: StratSpec,
    pub run_seed: u64,
    pub trace: Option<Vec<u32>>,
    pub class: String,
    pub msg: String,
    pub digest: u64,
}

fn default_mode() -> String {
    "run".into()
}

#[derive(Default, Serialize, Deserialize, Clone)]
pub struct Stats {
    pub scenarios: u64,
    pub runs: u64,
    pub steps: u64,
    pub switches: u64,
    pub tasks: u64,
    pub faults: BTreeMap<String, u64>,
    pub probes: BTreeMap<String, u64>,
    pub strategies: BTreeMap<String, u64>,
    pub other_prop: BTreeMap<String, u64>,
    pub layouts: HashSet<u64>,
    pub inters: HashSet<u64>,
    pub nontrivial: HashSet<u64>,
    pub overlap_pairs: u64,
    pub class_hits: BTreeMap<String, u64>,
    pub samples: Vec<serde_json::Value>,
    pub seeds: u64,
    pub first_seed: u64,
    pub max_hold_steps: u64,
    pub extra: BTreeMap<String, u64>,
}

impl Stats {
    pub fn bump(m: &mut BTreeMap<String, u64>, k: &str, n: u64) {
        *m.entry(k.to_string()).or_insert(0) += n;
    }
    pub fn merge(&mut self, o: Stats) {
        self.scenarios += o.scenarios;
        self.runs += o.runs;
        self.steps += o.steps;
        self.switches += o.switches;
        self.tasks += o.tasks;
        self.overlap_pairs += o.overlap_pairs;
        self.max_hold_steps = self.max_hold_steps.max(o.max_hold_steps);
        for (k, v) in o.faults {
            Self::bump(&mut self.faults, &k, v);
        }
        for (k, v) in o.probes {
            Self::bump(&mut self.probes, &k, v);
        }
        for (k, v) in o.strategies {
            Self::bump(&mut self.strategies, &k, v);
        }
        for (k, v) in o.other_prop {
            Self::bump(&mut self.other_prop, &k, v);
        }
        for (k, v) in o.class_hits {
            Self::bump(&mut self.class_hits, &k, v);
        }
        for (k, v) in o.extra {
            Self::bump(&mut self.extra, &k, v);
        }
        self.layouts.extend(o.layouts);
        self.inters.extend(o.inters);
        self.nontrivial.extend(o.nontrivial);
        for s in o.samples {
            if self.samples.len() < 3 {
                self.samples.push(s);
            }
        }
        if self.seeds == 0 || (o.seeds > 0 && o.first_seed < self.first_seed) {
            self.first_seed = o.first_seed;
        }
        self.seeds += o.seeds;
    }
}

pub fn gen_cfg(prop: &str, rng: &mut Rng) -> GenCfg {
    let mut c = GenCfg::default();
    if cfg!(feature = "real") && !prop.starts_with("X-") && crate::driver::SMALL_PLANS.load(Ordering::Relaxed) {
        // engine R search costs a few hundred microseconds per decision: smaller plans, more
        // of them (never for the cross-build digests: every build must generate the same
        // scenario for a seed there)
        c.max_sys = 8;
        c.max_depth = 2;
        return c;
    }
    if crate::driver::MIRI_PLANS.load(Ordering::Relaxed) {
        c.max_sys = 6;
        c.max_depth = 2;
        return c;
    }
    match prop {
        "C04" => {
            c.big = rng.chance(1, 25);
            c.max_sys = 30;
        }
        "C02" | "C03" => {
            c.max_sys = 12;
        }
        "C07" => {
            c.max_sys = 10;
            c.max_depth = 3;
        }
        "C14" => {
            c.max_sys = 8;
        }
        "C05" => {
            c.max_sys = 10;
        }
        "C11" => {
            c.max_sys = 20;
        }
        _ => {}
    }
    c
}

pub fn gen_for(prop: &str, seed: u64) -> Scenario {
    let mut sc = gen_for_raw(prop, seed);
    // whatever was added or stripped above: what only non-creating systems declare must exist
    fix_expect(&sc.regs, &mut sc.present);
    sc
}

fn gen_for_raw(prop: &str, seed: u64) -> Scenario {
    let mut rng = Rng::sub(seed, 9);
    let cfg = gen_cfg(prop, &mut rng);
    let mut sc = gen_scenario(seed, &cfg);
    // property-specific bias: regenerate until the scenario has what the property is about
    let mut tries = 0;
    loop {
        let ok = match prop {
            "C02" => has_dep(&sc.regs),
            "C03" => has_barrier(&sc.regs),
            "C07" => has_batch(&sc.regs),
            "C12" => has_tl(&sc.regs),
            _ => true,
        };
        if ok || tries >= 12 {
            break;
        }
        tries += 1;
        sc = gen_scenario(seed.wrapping_mul(31).wrapping_add(tries), &cfg);
    }
    if prop == "C04" && rng.chance(1, 4) {
        // a dispatch that panicked (and was caught) must not change what the following
        // dispatches run: arm one panic in the first call, count the later calls
        if sc.calls.len() < 2 {
            sc.calls.push(Call::Dispatch);
        }
        sc.calls[0] = if rng.chance(1, 2) { Call::Dispatch } else { Call::DispatchSeq };
        let inf = infos(&sc.regs);
        if !inf.is_empty() {
            let v = inf[rng.below(inf.len() as u64) as usize].sid;
            let kind = *rng.pick(&[FaultKind::PanicBefore, FaultKind::PanicMid, FaultKind::PanicAfter]);
            sc.faults.push(Fault { sid: v, call: 0, kind, arg: 0 });
        }
    }
    if matches!(prop, "C01" | "C02" | "C03" | "C07" | "C05") {
        // parallel calls only make these interesting
        for c in sc.calls.iter_mut() {
            if *c == Call::DispatchTl || (*c == Call::DispatchSeq && prop != "C05") {
                *c = Call::Dispatch;
            }
        }
    }
    if matches!(prop, "C01" | "C02" | "C03" | "C07") && rng.chance(1, 8) {
        // the guarantee is for every dispatch - also for those that follow one in which a system
        // panicked (caught by the caller): arm a panic in the first call, judge all calls
        while sc.calls.len() < 3 {
            sc.calls.push(Call::Dispatch);
        }
        let inf = infos(&sc.regs);
        if !inf.is_empty() {
            let v = inf[rng.below(inf.len() as u64) as usize].sid;
            let kind = *rng.pick(&[FaultKind::PanicBefore, FaultKind::PanicMid, FaultKind::PanicAfter]);
            sc.faults.push(Fault { sid: v, call: 0, kind, arg: 0 });
        }
    }
    #[cfg(feature = "sim")]
    if prop == "C15" || (matches!(prop, "C01" | "C02" | "C03" | "C04" | "C05" | "C11" | "C12" | "C13") && rng.chance(1, 7)) {
        crate::afamily::asyncify(&mut sc, &mut rng);
        // (not in the Miri tier: in pass-through mode nothing stands between a dying job, the
        // "Sender dropped" panic of the caller's next operation and the end of the process)
        if prop == "C15" && !crate::driver::MIRI_PLANS.load(Ordering::Relaxed) {
            let inf = infos(&sc.regs);
            let ord: Vec<usize> = inf.iter().filter(|i| i.parent.is_none() && i.kind == Kind::Sys).map(|i| i.sid).collect();
            let ndisp = sc.aops.iter().filter(|o| **o == AOp::Dispatch).count();
            let nsetup = sc.aops.iter().filter(|o| **o == AOp::Setup).count();
            if !ord.is_empty() && rng.chance(1, 10) {
                // a system panics inside a background job (a pool with a panic handler survives
                // that): the job dies without handing the state back, and no accessor may
                // pretend afterwards that the dispatch has completed
                let kind = *rng.pick(&[FaultKind::PanicBefore, FaultKind::PanicMid, FaultKind::PanicAfter]);
                sc.faults.push(Fault { sid: *rng.pick(&ord), call: rng.below(ndisp as u64) as usize, kind, arg: 0 });
            } else if !ord.is_empty() && nsetup > 0 && rng.chance(1, 8) {
                // a system's setup panics during a Setup operation; the caller catches it
                sc.faults.push(Fault { sid: *rng.pick(&ord), call: rng.below(nsetup as u64) as usize, kind: FaultKind::SetupPanic, arg: 0 });
            }
        }
        return sc;
    }
    if prop == "C12" && rng.chance(1, 5) {
        // a thread-local system that panics (caught) must not change what later dispatches run
        let inf = infos(&sc.regs);
        let tls: Vec<usize> = inf.iter().filter(|i| i.parent.is_none() && i.kind == Kind::Tl).map(|i| i.sid).collect();
        if !tls.is_empty() {
            sc.calls = vec![Call::Dispatch, Call::Dispatch, *rng.pick(&[Call::DispatchTl, Call::Dispatch])];
            sc.faults.push(Fault { sid: *rng.pick(&tls), call: 0, kind: *rng.pick(&[FaultKind::PanicBefore, FaultKind::PanicMid, FaultKind::PanicAfter]), arg: 0 });
        }
    }
    if prop == "C13" {
        // lifecycle: removals / overwrites followed by another setup; worlds in which
        // everything already exists
        if rng.chance(1, 4) {
            for p in sc.present.iter_mut() {
                *p = true;
            }
        }
        let n = sc.resmap.len();
        let rounds = rng.below(3);
        for _ in 0..rounds {
            let k = 1 + rng.below(3);
            for _ in 0..k {
                let l = rng.below(n as u64) as usize;
                sc.lifecycle.push(if rng.chance(2, 3) { LifeOp::Remove(l) } else { LifeOp::Put(l) });
            }
            sc.lifecycle.push(LifeOp::Setup);
        }
        if rng.chance(1, 3) {
            // a panicking dispatch before dispose
            let inf = infos(&sc.regs);
            if !inf.is_empty() {
                let v = inf[rng.below(inf.len() as u64) as usize].sid;
                sc.faults.push(Fault { sid: v, call: 0, kind: FaultKind::PanicMid, arg: 0 });
            }
        }
    }
    sc
}

fn has_dep(r: &[Reg]) -> bool {
    r.iter().any(|x| match x {
        Reg::Sys { deps, .. } => !deps.is_empty(),
        Reg::Batch { deps, inner, .. } => !deps.is_empty() || has_dep(inner),
        Reg::TlDisp { inner } => has_dep(inner),
        _ => false,
    })
}
fn has_barrier(r: &[Reg]) -> bool {
    r.iter().any(|x| match x {
        Reg::Barrier => true,
        Reg::Batch { inner, .. } => has_barrier(inner),
        _ => false,
    })
}
fn has_batch(r: &[Reg]) -> bool {
    r.iter().any(|x| matches!(x, Reg::Batch { .. }))
}
fn has_tl(r: &[Reg]) -> bool {
    r.iter().any(|x| match x {
        Reg::Tl { .. } | Reg::TlDisp { .. } => true,
        Reg::Batch { inner, .. } => has_tl(inner),
        _ => false,
    })
}

fn strat_name(s: &StratSpec) -> &'static str {
    match s {
        StratSpec::Random => "random",
        StratSpec::LowSwitch(_) => "low-switch",
        StratSpec::MaxOverlap => "max-overlap",
        StratSpec::Hold(_) => "hold",
        StratSpec::Pct(_) => "pct",
        StratSpec::RoundRobin => "round-robin",
        StratSpec::NoPreempt => "no-preempt",
    }
}

/// One planned execution: the scenario variant (faults / calls / pool may differ from the base
/// scenario; the registration sequence never does), mode, strategy, seed.
pub struct Planned {
    pub sc: Scenario,
    pub mode: &'static str,
    pub strat: StratSpec,
    pub rs: u64,
}

fn random_strat(rng: &mut Rng, k: u64) -> StratSpec {
    match k % 4 {
        0 => StratSpec::Random,
        1 => StratSpec::LowSwitch(100),
        2 => StratSpec::Pct(1 + (rng.below(3) as u32)),
        _ => StratSpec::RoundRobin,
    }
}

/// Stages with at least two groups (top level or inside a hand-written-controller batch):
/// (parent, the groups)
fn wide_stages(layout: &crate::build::Layout) -> Vec<(Option<usize>, Vec<Vec<usize>>)> {
    let mut v = Vec::new();
    for st in &layout.top {
        if st.len() >= 2 && st.iter().all(|g| !g.is_empty()) {
            v.push((None, st.clone()));
        }
    }
    for (p, l) in &layout.inner {
        for st in l {
            if st.len() >= 2 && st.iter().all(|g| !g.is_empty()) {
                v.push((Some(*p), st.clone()));
            }
        }
    }
    v
}

/// Which runs to make for one scenario.
pub fn plan_runs(prop: &str, sc: &Scenario, infos: &[SysInfo], layout: &crate::build::Layout, thorough: bool, rng: &mut Rng) -> Vec<Planned> {
    let mut v: Vec<Planned> = Vec::new();
    let mode = if prop == "C05" { "cmp" } else { "run" };
    let mk = |sc: &Scenario, strat: StratSpec, rng: &mut Rng| Planned { sc: sc.clone(), mode, strat, rs: rng.next_u64() };
    match prop {
        "C14" => {
            // fault enumeration: every system position panics once (at a seeded point), in a
            // parallel or a sequential dispatch, followed by a recovery dispatch
            for i in infos.iter() {
                let points: Vec<FaultKind> = if thorough {
                    vec![FaultKind::PanicBefore, FaultKind::PanicMid, FaultKind::PanicAfter]
                } else {
                    vec![*rng.pick(&[FaultKind::PanicBefore, FaultKind::PanicMid, FaultKind::PanicAfter])]
                };
                for kind in points {
                    let mut s = sc.clone();
                    let first = match rng.below(4) {
                        0 => Call::DispatchSeq,
                        1 => Call::DispatchPar,
                        _ => Call::Dispatch,
                    };
                    // the recovery dispatch may be of another kind than the one that panicked
                    let second = match rng.below(4) {
                        0 => Call::DispatchSeq,
                        1 => Call::DispatchPar,
                        _ => Call::Dispatch,
                    };
                    s.calls = vec![first, second];
                    if rng.chance(1, 3) {
                        s.calls.push(*rng.pick(&[Call::DispatchSeq, Call::Dispatch, Call::DispatchTl]));
                    }
                    s.faults = vec![Fault { sid: i.sid, call: 0, kind, arg: 0 }];
                    if rng.chance(1, 6) && infos.len() > 1 {
                        // a second system panics in the same dispatch
                        let j = rng.below(infos.len() as u64) as usize;
                        if j != i.sid {
                            s.faults.push(Fault { sid: j, call: 0, kind: FaultKind::PanicMid, arg: 0 });
                        }
                    }
                    if s.pool.supplied.is_some() && rng.chance(1, 6) {
                        // dispatch is called by a worker of the dispatcher's own pool
                        s.from_pool = Some(0);
                    }
                    // sibling phase at the instant of the panic is the scheduler's doing
                    let sibs: Vec<usize> = infos.iter().filter(|x| x.parent == i.parent && x.sid != i.sid && x.kind != Kind::Tl).map(|x| x.sid).collect();
                    let strat = match rng.below(5) {
                        0 => StratSpec::MaxOverlap,
                        1 if !sibs.is_empty() => StratSpec::Hold(*rng.pick(&sibs)),
                        2 => StratSpec::Hold(i.sid),
                        3 => StratSpec::NoPreempt,
                        _ => StratSpec::Random,
                    };
                    v.push(Planned { sc: s, mode: "run", strat, rs: rng.next_u64() });
                }
            }
            return v;
        }
        "C11" => {
            // rendezvous of all group heads of one wide stage; the pool has exactly as many
            // workers as the stage is wide (or a few more)
            for (parent, groups) in wide_stages(layout).iter() {
                let w = groups.len();
                let heads: Vec<usize> = groups.iter().map(|g| g[0]).collect();
                let mut s = sc.clone();
                if !s.asyncd && !s.calls.iter().any(|c| matches!(c, Call::Dispatch | Call::DispatchPar)) {
                    s.calls = vec![Call::Dispatch];
                }
                let calls: Vec<usize> = if s.asyncd {
                    // directives of an async scenario are armed per dispatch operation
                    (0..s.aops.iter().filter(|o| **o == AOp::Dispatch).count()).collect()
                } else {
                    s.calls.iter().enumerate().filter(|(_, c)| matches!(c, Call::Dispatch | Call::DispatchPar)).map(|(i, _)| i).collect()
                };
                s.faults.clear();
                if let Some(p) = parent {
                    // every enclosing batch must run at least once for the heads to meet
                    let mut q = Some(*p);
                    let mut reachable = true;
                    while let Some(x) = q {
                        if infos[x].times == 0 {
                            reachable = false;
                        }
                        q = infos[x].parent;
                    }
                    if !reachable {
                        continue;
                    }
                }
                // who meets: the heads of all groups - or, one time in three, one member (at any
                // position) of each of two or more groups; then a system of a group that does not
                // take part may also panic during that dispatch: the others still have to meet
                let mut members = heads.clone();
                let mut panics: Option<(usize, FaultKind)> = None;
                if rng.chance(1, 3) {
                    let mut gi: Vec<usize> = (0..w).collect();
                    rng.shuffle(&mut gi);
                    let m = 2 + rng.below((w - 1) as u64) as usize;
                    members = gi[..m].iter().map(|&g| *rng.pick(&groups[g])).collect();
                    members.sort();
                    if m < w && !s.asyncd && rng.chance(1, 2) {
                        let kind = *rng.pick(&[FaultKind::PanicBefore, FaultKind::PanicMid, FaultKind::PanicAfter]);
                        panics = Some((*rng.pick(&groups[gi[m]]), kind));
                    }
                }
                let mut g = 0u64;
                for &ci in &calls {
                    for &h in &members {
                        s.faults.push(Fault { sid: h, call: ci, kind: FaultKind::Rendezvous, arg: g });
                    }
                    g += 1;
                }
                if let Some((ps, kind)) = panics {
                    // in the first call only: the following calls show that the meeting still works
                    s.faults.push(Fault { sid: ps, call: calls[0], kind, arg: 0 });
                }
                // "given at least as many idle pool threads as the stage has groups": a worker
                // that is driving an enclosing batch, or the background job of the async
                // dispatcher, is not idle - one more thread for each of them
                let mut busy = s.asyncd as usize;
                let mut q = *parent;
                while let Some(x) = q {
                    busy += 1;
                    q = infos[x].parent;
                }
                let extra = if rng.chance(1, 2) { 0 } else { rng.below(3) as usize };
                if rng.chance(1, 2) {
                    s.pool.supplied = Some(w + busy + extra);
                } else {
                    s.pool.supplied = None;
                    s.pool.machine = w + busy + extra;
                }
                if !s.asyncd && rng.chance(1, 5) {
                    s.from_pool = Some(1);
                }
                let k = rng.below(4);
                let strat = random_strat(rng, k);
                v.push(Planned { sc: s, mode: "run", strat, rs: rng.next_u64() });
            }
            return v;
        }
        _ => {}
    }
    v.push(mk(sc, StratSpec::MaxOverlap, rng));
    let mut holds: Vec<usize> = match prop {
        "C02" => {
            let mut d: Vec<usize> = infos.iter().flat_map(|i| i.deps.iter().copied()).collect();
            d.sort();
            d.dedup();
            d
        }
        "C03" => {
            let maxe = infos.iter().map(|i| i.epoch).max().unwrap_or(0);
            infos.iter().filter(|i| i.kind != Kind::Tl && i.epoch < maxe).map(|i| i.sid).collect()
        }
        "C04" | "C13" => vec![],
        _ => infos.iter().filter(|i| i.kind != Kind::Tl).map(|i| i.sid).collect(),
    };
    let cap = if cfg!(feature = "real") { 5 } else if thorough { 64 } else { 16 };
    if holds.len() > cap {
        rng.shuffle(&mut holds);
        holds.truncate(cap);
        holds.sort();
    }
    for h in holds {
        v.push(mk(sc, StratSpec::Hold(h), rng));
    }
    let nrand = if thorough { 6 } else { 3 };
    for k in 0..nrand {
        let s = random_strat(rng, k);
        v.push(mk(sc, s, rng));
    }
    v
}

/// All violations (of every property) visible in one run.
pub fn eval_run(sc: &Scenario, b: &Built, ro: &RunOut, overlap_pairs: &mut u64) -> Vec<Violation> {
    let infos = &b.ctx.infos;
    let mut out = Vec::new();
    let h = history(&ro.events, infos);
    *overlap_pairs += check_isolation(&h, infos, &mut out);
    check_borrow_noise(sc, ro, &mut out);
    check_deps(&h, infos, &mut out);
    check_barriers(&h, infos, &mut out);
    check_counts(sc, &h, infos, ro, &mut out);
    check_tl(&h, infos, &ro.events, &mut out);
    check_cells_free(ro, &mut out);
    check_panics(sc, &h, infos, ro, &ro.fired, &mut out);
    match &ro.outcome {
        detsim::Outcome::Done => {}
        o => out.push(Violation { prop: "HARNESS".into(), class: "outcome".into(), msg: format!("{:?}", o) }),
    }
    for e in &ro.escaped {
        if !crate::util::is_borrow_panic(e) {
            out.push(Violation { prop: "HARNESS".into(), class: "escaped-panic".into(), msg: e.clone() });
        }
    }
    let injected = sc.faults.iter().any(|f| matches!(f.kind, FaultKind::PanicBefore | FaultKind::PanicMid | FaultKind::PanicAfter | FaultKind::Undeclared));
    for (ci, c) in ro.calls.iter().enumerate() {
        if let Some(p) = &c.panic {
            let injected_here = injected && sc.faults.iter().any(|f| f.call == ci);
            if !injected_here && !crate::util::is_borrow_panic(p) {
                // a dispatch that panics without any injected fault has not run every system once
                out.push(Violation {
                    prop: "C04".into(),
                    class: "dispatch-panicked".into(),
                    msg: format!("call #{} ({:?}) panicked without an injected fault: {}", ci, c.call, p.lines().next().unwrap_or("")),
                });
            }
        }
    }
    out
}

/// C03, second sentence: a barrier where no system was registered since the previous barrier (or
/// at the very beginning of a builder) changes nothing. Every builder of the scenario gets one in
/// front and a second one next to each of its barriers; the executed plan must be the same.
pub fn with_redundant_barriers(regs: &[Reg]) -> Vec<Reg> {
    let mut out = vec![Reg::Barrier];
    for r in regs {
        match r {
            Reg::Barrier => {
                out.push(Reg::Barrier);
                out.push(Reg::Barrier);
            }
            Reg::Batch { name, deps, ctl_read, ctl_write, times, multi, hint, inner } => out.push(Reg::Batch {
                name: name.clone(),
                deps: deps.clone(),
                ctl_read: *ctl_read,
                ctl_write: *ctl_write,
                times: *times,
                multi: *multi,
                hint: *hint,
                inner: with_redundant_barriers(inner),
            }),
            Reg::TlDisp { inner } => out.push(Reg::TlDisp { inner: with_redundant_barriers(inner) }),
            other => out.push(other.clone()),
        }
    }
    out
}

pub fn check_redundant_barriers(sc: &Scenario) -> Vec<Violation> {
    let mut s2 = sc.clone();
    s2.regs = with_redundant_barriers(&sc.regs);
    let a = build(sc, &BuildOpts::default());
    let b = build(&s2, &BuildOpts::default());
    let (ca, cb) = (a.layout.canonical(), b.layout.canonical());
    let mut out = Vec::new();
    if a.layout.ident_panic.is_none() && b.layout.ident_panic.is_none() && ca != cb {
        out.push(Violation {
            prop: "C03".into(),
            class: "redundant-barrier-changed-plan".into(),
            msg: format!("the executed plan is {} ; with a barrier added in front of every builder and next to every barrier it is {}", ca, cb),
        });
    }
    let _ = eval_dispose(a);
    let _ = eval_dispose(b);
    out
}

/// What a panic of the identification dispatch means.
pub fn ident_violations(layout: &crate::build::Layout) -> Vec<Violation> {
    let mut out = Vec::new();
    if let Some(p) = &layout.ident_panic {
        // the generator guarantees that every resource a system fetches is either in the world
        // from the start or declared through a default-providing accessor by somebody: after
        // `Dispatcher::setup` a sequential dispatch can only miss a resource if setup did
        let first = p.lines().next().unwrap_or("").to_string();
        if p.contains("missing-resource") || p.contains("Tried to fetch resource") {
            out.push(Violation { prop: "C13".into(), class: "resource-missing-after-setup".into(), msg: format!("the first sequential dispatch after Dispatcher::setup panicked: {}", first) });
        } else if crate::util::is_borrow_panic(p) {
            out.push(Violation { prop: "C01".into(), class: "borrow-panic".into(), msg: format!("the first sequential dispatch after Dispatcher::setup panicked with a borrow conflict: {}", first) });
        } else {
            out.push(Violation { prop: "C04".into(), class: "dispatch-panicked".into(), msg: format!("the first sequential dispatch after Dispatcher::setup panicked without an injected fault: {}", first) });
        }
    }
    out
}

/// Static checks on the built structure (shape sums, setup), independent of any run.
pub fn eval_static(b: &Built) -> Vec<Violation> {
    let mut out = Vec::new();
    let infos = &b.ctx.infos;
    let iv = ident_violations(&b.layout);
    if !iv.is_empty() {
        return iv;
    }
    if !b.layout.shape_ok {
        for p in &b.layout.problems {
            out.push(Violation { prop: "C04".into(), class: "shape-sum".into(), msg: p.clone() });
        }
    }
    let want_top = infos.iter().filter(|i| i.parent.is_none() && i.kind != Kind::Tl).count();
    let got_top: usize = b.layout.top.iter().map(|s| s.iter().map(|g| g.len()).sum::<usize>()).sum();
    if want_top != got_top {
        out.push(Violation {
            prop: "C04".into(),
            class: "shape-sum".into(),
            msg: format!("{} systems/batches registered at top level, the executed plan holds {}", want_top, got_top),
        });
    }
    let want_tl = infos.iter().filter(|i| i.parent.is_none() && i.kind == Kind::Tl).count();
    if want_tl != b.layout.tl_top {
        out.push(Violation {
            prop: "C04".into(),
            class: "shape-sum".into(),
            msg: format!("{} thread-local systems registered, dispatcher holds {}", want_tl, b.layout.tl_top),
        });
    }
    for (bs, l) in &b.layout.inner {
        let want = infos.iter().filter(|i| i.parent == Some(*bs) && i.kind != Kind::Tl).count();
        let got: usize = l.iter().map(|s| s.iter().map(|g| g.len()).sum::<usize>()).sum();
        if want != got {
            out.push(Violation {
                prop: "C04".into(),
                class: "shape-sum".into(),
                msg: format!("batch {}: {} systems registered inside, its executed plan holds {}", bs, want, got),
            });
        }
    }
    // setup reached every system exactly once per Dispatcher::setup call (C13)
    for i in infos.iter() {
        let n = b.ctx.states[i.sid].setup.load(Ordering::SeqCst);
        // a batch's own counter is not incremented by anything (its controller has no setup hook)
        if i.kind != Kind::Batch && !i.container && n != b.expected_setups {
            out.push(Violation {
                prop: "C13".into(),
                class: if n < b.expected_setups { "setup-missed".into() } else { "setup-twice".into() },
                msg: format!(
                    "system {} ({:?} at batch depth {}) had its setup called {} time(s) by {} call(s) of Dispatcher::setup",
                    i.sid, i.kind, i.depth, n, b.expected_setups
                ),
            });
        }
    }
    for p in &b.setup_problems {
        out.push(Violation { prop: "C13".into(), class: "setup-world".into(), msg: p.clone() });
    }
    out
}

/// C12, second sentence: a dispatcher converts to its sendable form exactly when it has no
/// thread-local systems, and the conversion preserves its plan (same shape, same systems at the
/// same positions - recovered by an identification run of the converted dispatcher).
pub fn check_sendable(sc: &Scenario) -> Vec<Violation> {
    use shred::RunNow;
    let mut out = Vec::new();
    let mut b = build(sc, &BuildOpts::default());
    let infos = b.ctx.infos.clone();
    let has_tl = infos.iter().any(|i| i.parent.is_none() && i.kind == Kind::Tl);
    let before = b.layout.clone();
    let Some(d) = b.disp.take() else { return out };
    match d.try_into_sendable() {
        Ok(mut sd) => {
            if has_tl {
                out.push(Violation { prop: "C12".into(), class: "sendable-with-thread-local".into(), msg: "try_into_sendable returned Ok for a dispatcher that holds thread-local systems".into() });
            }
            let shape = sd.verif_shape();
            let want: Vec<Vec<usize>> = before.top.iter().map(|s| s.iter().map(|g| g.len()).collect()).collect();
            if shape != want {
                out.push(Violation { prop: "C12".into(), class: "sendable-plan-changed".into(), msg: format!("shape before the conversion {:?}, after {:?}", want, shape) });
            } else {
                // identification run of the converted dispatcher (through its RunNow face in the
                // build without `parallel`, dispatch_seq otherwise)
                b.ctx.mode.store(1, Ordering::SeqCst);
                b.ctx.events.lock().unwrap().clear();
                b.ctx.dispatching.store(true, Ordering::SeqCst);
                sd.dispatch_seq(&b.world);
                b.ctx.dispatching.store(false, Ordering::SeqCst);
                b.ctx.mode.store(0, Ordering::SeqCst);
                let evs = std::mem::take(&mut *b.ctx.events.lock().unwrap());
                let order: Vec<usize> = evs.iter().filter(|e| e.kind == crate::sys::Ev::Enter && infos[e.sid as usize].parent.is_none()).map(|e| e.sid as usize).collect();
                let want_order: Vec<usize> = before.top.iter().flatten().flatten().copied().collect();
                if order != want_order {
                    out.push(Violation { prop: "C12".into(), class: "sendable-plan-changed".into(), msg: format!("systems in execution order before the conversion {:?}, after {:?}", want_order, order) });
                }
            }
            let bx: Box<dyn for<'a> RunNow<'a>> = Box::new(sd);
            bx.dispose(&mut b.world);
        }
        Err(d2) => {
            if !has_tl {
                out.push(Violation { prop: "C12".into(), class: "not-sendable-without-thread-local".into(), msg: "try_into_sendable returned Err for a dispatcher without thread-local systems".into() });
            }
            let (shape, tl) = d2.verif_shape();
            let want: Vec<Vec<usize>> = before.top.iter().map(|s| s.iter().map(|g| g.len()).collect()).collect();
            if shape != want || tl != before.tl_top {
                out.push(Violation { prop: "C12".into(), class: "sendable-plan-changed".into(), msg: "the dispatcher handed back by a refused conversion has another shape".into() });
            }
            d2.dispose(&mut b.world);
        }
    }
    out
}

/// Dispose the dispatcher and check that every system was handed to its dispose hook once.
pub fn eval_dispose(mut b: Built) -> Vec<Violation> {
    let mut out = Vec::new();
    if let Some(d) = b.disp.take() {
        d.dispose(&mut b.world);
    }
    for i in b.ctx.infos.iter().filter(|i| i.kind != Kind::Batch && !i.container) {
        let n = b.ctx.states[i.sid].dispose.load(Ordering::SeqCst);
        if n != 1 {
            let class = match (i.depth >= 1, n == 0) {
                (true, true) => "dispose-missed-in-batch",
                (true, false) => "dispose-twice-in-batch",
                (false, true) => "dispose-missed",
                (false, false) => "dispose-twice",
            };
            out.push(Violation {
                prop: "C13".into(),
                class: class.into(),
                msg: format!("system {} ({:?} at batch depth {}) was handed to its dispose hook {} time(s) by Dispatcher::dispose", i.sid, i.kind, i.depth, n),
            });
        }
    }
    out
}

/// What the worker is executing right now (for the fatal handler: a deadlocked run cannot
/// return, so the record is assembled from here).
#[allow(clippy::type_complexity)]
pub static CUR: std::sync::Mutex<Option<(serde_json::Value, String, StratSpec, u64, u64, bool)>> = std::sync::Mutex::new(None);

pub fn current_record(prop: &str, class: &str, msg: String, trace: Vec<u32>) -> Option<Replay> {
    let g = CUR.lock().unwrap();
    let (sc, mode, strat, rs, seed, has_rdv) = g.as_ref()?.clone();
    // a dispatch that never returns: C11 when systems were waiting for each other, otherwise the
    // property under check if it speaks about dispatches completing, else "every system runs"
    let p = if prop == "C11" || has_rdv {
        "C11"
    } else if matches!(prop, "C04" | "C07" | "C12" | "C13" | "C14" | "C15") {
        prop
    } else {
        "C04"
    };
    let msg = match serde_json::from_value::<Scenario>(sc.clone()) {
        Ok(s) if has_rdv => describe_rendezvous_failure(&s, &msg),
        _ => msg,
    };
    Some(Replay {
        property: p.to_string(),
        family: "D".into(),
        engine: engine_name().into(),
        mode,
        seed,
        scenario: sc,
        strategy: strat,
        run_seed: rs,
        trace: Some(trace),
        class: class.to_string(),
        msg,
        digest: 0,
    })
}

/// Message of a rendezvous that did not complete. The shape of the input is part of the
/// message, because that is what known findings are matched on.
pub fn describe_rendezvous_failure(sc: &Scenario, outcome: &str) -> String {
    let inf = infos(&sc.regs);
    let g0 = sc.faults.iter().filter(|f| f.kind == FaultKind::Rendezvous).map(|f| f.arg).min().unwrap_or(0);
    let heads: Vec<usize> = sc.faults.iter().filter(|f| f.kind == FaultKind::Rendezvous && f.arg == g0).map(|f| f.sid).collect();
    let depth = heads.iter().filter_map(|&h| inf.get(h)).map(|i| i.depth).max().unwrap_or(0);
    let shape = if depth >= 2 && sc.pool.supplied.is_some() {
        "stage inside a batch nested two or more levels deep under a dispatcher with a supplied pool"
    } else if depth >= 1 {
        "stage inside a batch"
    } else {
        "top-level stage"
    };
    format!(
        "{} systems in different groups of a {} (batch depth {}) waited for each other inside run and the dispatch deadlocked; supplied pool: {:?} workers, default pool size: {}, dispatch called from a foreign pool worker: {}; {}",
        heads.len(),
        shape,
        depth,
        sc.pool.supplied,
        sc.pool.machine,
        sc.from_pool.is_some(),
        outcome
    )
}

fn layout_probes(b: &Built, st: &mut Stats) {
    let mut maxg = 0;
    let mut all: Vec<&Vec<Vec<Vec<usize>>>> = vec![&b.layout.top];
    for (_, l) in &b.layout.inner {
        all.push(l);
    }
    for l in all {
        for s in l {
            for g in s {
                maxg = maxg.max(g.len());
            }
            if s.len() >= 4 {
                Stats::bump(&mut st.probes, "stage_width_ge4", 1);
            }
        }
        if l.len() >= 8 {
            Stats::bump(&mut st.probes, "stages_ge8", 1);
        }
    }
    if maxg >= 4 {
        Stats::bump(&mut st.probes, "group_reached_4", 1);
    }
    if maxg >= 2 {
        Stats::bump(&mut st.probes, "group_ge2", 1);
    }
    let depth = b.ctx.infos.iter().map(|i| i.depth).max().unwrap_or(0);
    if depth >= 2 {
        Stats::bump(&mut st.probes, "batch_depth_ge2", 1);
    }
    if depth >= 3 {
        Stats::bump(&mut st.probes, "batch_depth_3", 1);
    }
    for i in b.ctx.infos.iter() {
        for &d in &i.deps {
            if let (Some(a), Some(c)) = (b.layout.pos[d], b.layout.pos[i.sid]) {
                if a.0 == c.0 && a.1 == c.1 {
                    Stats::bump(&mut st.probes, "dep_in_same_group", 1);
                }
                if a.0 == c.0 && a.1 != c.1 {
                    Stats::bump(&mut st.probes, "dep_same_stage_other_group", 1);
                }
            }
        }
    }
}

pub struct RecordOut {
    pub violations: Vec<Violation>,
    pub digest: u64,
    pub trace: Vec<u32>,
    pub steps: u64,
    pub switches: u64,
    pub tasks: u64,
    pub inter_digest: u64,
    pub overlap_pairs: u64,
    pub max_busy: u64,
    pub fired: Vec<(FaultKind, bool)>,
}

/// Sequential reference for C05: the same calls with the parallel part replaced by
/// `dispatch_seq` (thread-local systems keep their place).
fn seq_calls(calls: &[Call]) -> Vec<Call> {
    let mut v = Vec::new();
    for c in calls {
        match c {
            Call::Dispatch => {
                v.push(Call::DispatchSeq);
                v.push(Call::DispatchTl);
            }
            Call::DispatchPar => v.push(Call::DispatchSeq),
            x => v.push(*x),
        }
    }
    v
}

/// Execute one record's run(s) on an already built scenario.
/// A rendezvous directive only makes sense between systems that the executed plan puts into
/// different groups of ONE stage of one builder (that is how `plan_runs` makes them). A scenario
/// edited afterwards - by the minimiser, by hand - may no longer be like that; it then says nothing
/// about C11 and is not run.
pub fn rendezvous_well_formed(sc: &Scenario, layout: &crate::build::Layout, infos: &[SysInfo]) -> bool {
    let mut groups: Vec<u64> = sc.faults.iter().filter(|f| f.kind == FaultKind::Rendezvous).map(|f| f.arg).collect();
    groups.sort();
    groups.dedup();
    for g in groups {
        let members: Vec<usize> = sc.faults.iter().filter(|f| f.kind == FaultKind::Rendezvous && f.arg == g).map(|f| f.sid).collect();
        if members.len() < 2 {
            return false;
        }
        let mut seen: Vec<(Option<usize>, usize, usize)> = Vec::new();
        for &m in &members {
            let (Some(i), Some(Some((st, gr, _)))) = (infos.get(m), layout.pos.get(m)) else { return false };
            let key = (i.parent, *st, *gr);
            if let Some(first) = seen.first() {
                if first.0 != key.0 || first.1 != key.1 {
                    return false; // another builder or another stage
                }
            }
            if seen.contains(&key) {
                return false; // two members in one group run one after the other
            }
            seen.push(key);
        }
    }
    true
}

pub fn eval_on(b: &mut Built, sc: &Scenario, mode: &str, strat: &StratSpec, rs: u64, trace: Option<Vec<u32>>) -> RecordOut {
    if b.layout.ident_panic.is_none() && !rendezvous_well_formed(sc, &b.layout, &b.ctx.infos) {
        return RecordOut { violations: vec![], digest: 0, trace: vec![], steps: 0, switches: 0, tasks: 0, inter_digest: 0, overlap_pairs: 0, max_busy: 0, fired: vec![] };
    }
    let ro = run_calls(b, sc, strat, rs, trace);
    let mut ov = 0;
    let mut vs = eval_run(sc, b, &ro, &mut ov);
    if mode == "cmp" {
        // C05: same dispatcher object, world and system states restored, sequential dispatch
        let mut s2 = sc.clone();
        s2.calls = seq_calls(&sc.calls);
        s2.faults.clear();
        let rr = run_calls(b, &s2, &StratSpec::NoPreempt, 0, None);
        let par_panic = ro.calls.iter().filter_map(|c| c.panic.clone()).next();
        let seq_panicked = rr.calls.iter().any(|c| c.panic.is_some());
        if let (Some(p), false) = (&par_panic, seq_panicked) {
            vs.push(Violation {
                prop: "C05".into(),
                class: "parallel-panicked".into(),
                msg: format!("the parallel dispatch panicked ({}), the sequential dispatch of the same dispatcher did not", p.lines().next().unwrap_or("")),
            });
        } else if par_panic.is_none() && !seq_panicked {
            let mut differs = false;
            for (l, (a, c)) in ro.final_world.iter().zip(rr.final_world.iter()).enumerate() {
                if a.map(|x| x.v) != c.map(|x| x.v) {
                    vs.push(Violation {
                        prop: "C05".into(),
                        class: "world-differs".into(),
                        msg: format!("logical resource {}: value after the parallel dispatch {:?}, after the sequential dispatch {:?}", l, a.map(|x| x.v), c.map(|x| x.v)),
                    });
                    differs = true;
                    break;
                }
            }
            if !differs {
                for sid in 0..ro.final_states.len() {
                    if ro.final_states[sid] != rr.final_states[sid] || ro.obs[sid] != rr.obs[sid] {
                        vs.push(Violation {
                            prop: "C05".into(),
                            class: "system-state-differs".into(),
                            msg: format!(
                                "system {}: state / observation log after the parallel dispatch differs from the sequential dispatch ({} vs {} observations)",
                                sid,
                                ro.obs[sid].len(),
                                rr.obs[sid].len()
                            ),
                        });
                        break;
                    }
                }
            }
        }
    }
    RecordOut {
        violations: vs,
        digest: log_digest(&ro.events),
        trace: ro.trace,
        steps: ro.steps,
        switches: ro.switches,
        tasks: ro.tasks as u64,
        inter_digest: interleaving_digest(&ro.events),
        overlap_pairs: ov,
        max_busy: ro.max_busy,
        fired: sc.faults.iter().zip(ro.fired.iter()).map(|(f, x)| (f.kind, *x)).collect(),
    }
}

#[allow(clippy::too_many_arguments)]
pub fn engine_name() -> &'static str {
    if cfg!(feature = "real") {
        "R"
    } else if cfg!(feature = "sim") {
        "S"
    } else {
        "nopar"
    }
}

#[allow(clippy::too_many_arguments)]
fn mk_replay(prop: &str, seed: u64, sc: &Scenario, mode: &str, strat: &StratSpec, rs: u64, trace: Option<Vec<u32>>, digest: u64, v: &Violation) -> Replay {
    Replay {
        property: prop.to_string(),
        family: "D".into(),
        engine: engine_name().into(),
        mode: mode.to_string(),
        seed,
        scenario: serde_json::to_value(sc).unwrap(),
        strategy: strat.clone(),
        run_seed: rs,
        trace,
        class: v.class.clone(),
        msg: v.msg.clone(),
        digest,
    }
}

fn note_fault(st: &mut Stats, k: FaultKind, fired: bool) {
    let name = match k {
        FaultKind::PanicBefore => "panic_run_before",
        FaultKind::PanicMid => "panic_run_mid",
        FaultKind::PanicAfter => "panic_run_after",
        FaultKind::Rendezvous => "rendezvous",
        FaultKind::ExtraSteps => "stall_extra_steps",
        FaultKind::Undeclared => "undeclared_fetch",
        FaultKind::SetupPanic => "panic_in_system_setup",
    };
    if fired {
        Stats::bump(&mut st.faults, name, 1);
    } else {
        Stats::bump(&mut st.faults, &format!("{}_armed_not_reached", name), 1);
    }
}

fn push_found(prop: &str, found: &mut Vec<Replay>, st: &mut Stats, v: &Violation, r: impl FnOnce() -> Replay) {
    if v.prop == prop {
        Stats::bump(&mut st.class_hits, &v.class, 1);
        if !found.iter().any(|f| f.class == v.class) {
            found.push(r());
        }
    } else {
        Stats::bump(&mut st.other_prop, &v.prop, 1);
    }
}

/// Explore one seed for property `prop`. Returns the first violation of each class.
/// Under the Miri tier the schedule is Miri's: one run per distinct (scenario variant, mode),
/// no rendezvous directives.
fn miri_cut(plan: Vec<Planned>) -> Vec<Planned> {
    if !crate::driver::MIRI_PLANS.load(Ordering::Relaxed) {
        return plan;
    }
    let mut out: Vec<Planned> = Vec::new();
    for p in plan {
        if p.sc.faults.iter().any(|f| f.kind == FaultKind::Rendezvous) {
            continue;
        }
        if out.iter().any(|q| q.mode == p.mode && q.sc == p.sc) {
            continue;
        }
        out.push(p);
        if out.len() >= 3 {
            break;
        }
    }
    out
}

pub fn explore(prop: &str, seed: u64, thorough: bool, st: &mut Stats) -> Vec<Replay> {
    let sc = gen_for(prop, seed);
    st.scenarios += 1;
    if st.seeds == 0 {
        st.first_seed = seed;
    }
    st.seeds += 1;
    let mut found: Vec<Replay> = Vec::new();
    let mut rng = Rng::sub(seed, 2);
    #[cfg(feature = "sim")]
    if sc.asyncd {
        explore_async(prop, seed, &sc, thorough, st, &mut rng, &mut found);
        return found;
    }
    if prop == "C03" && !sc.asyncd && seed % 4 == 0 {
        st.runs += 1;
        Stats::bump(&mut st.probes, "redundant_barriers_compared", 1);
        for v in check_redundant_barriers(&sc) {
            push_found(prop, &mut found, st, &v, || mk_replay(prop, seed, &sc, "redundant-barriers", &StratSpec::NoPreempt, 0, None, 0, &v));
        }
    }
    if prop == "C13" && seed % 6 == 0 {
        // dispose does not presuppose setup: a dispatcher that was never set up (the world may
        // have been filled by other means) hands every system to its dispose hook all the same
        let nb = build(&sc, &BuildOpts { do_setup: false, ..BuildOpts::default() });
        st.runs += 1;
        Stats::bump(&mut st.probes, "dispose_without_setup", 1);
        for v in eval_dispose(nb) {
            push_found(prop, &mut found, st, &v, || mk_replay(prop, seed, &sc, "nosetup", &StratSpec::NoPreempt, 0, None, 0, &v));
        }
    }
    let mut b = build(&sc, &BuildOpts::default());
    let lay_digest = fnv(b.layout.canonical().as_bytes());
    st.layouts.insert(lay_digest);
    layout_probes(&b, st);
    if st.samples.is_empty() {
        st.samples.push(json!({"seed": seed, "systems": count_systems(&sc.regs), "executed_layout": b.layout.canonical(), "calls": sc.calls, "pool": sc.pool, "lifecycle": sc.lifecycle, "registration_sequence": sc.regs}));
    }
    for v in eval_static(&b) {
        push_found(prop, &mut found, st, &v, || mk_replay(prop, seed, &sc, "static", &StratSpec::NoPreempt, 0, None, 0, &v));
    }
    let plan = if b.layout.ident_panic.is_some() { vec![] } else { miri_cut(plan_runs(prop, &sc, &b.ctx.infos, &b.layout, thorough, &mut rng)) };
    for p in plan {
        if crate::driver::past_deadline() {
            break;
        }
        let has_rdv = p.sc.faults.iter().any(|f| f.kind == FaultKind::Rendezvous);
        if !crate::driver::MIRI_PLANS.load(Ordering::Relaxed) {
            *CUR.lock().unwrap() = Some((serde_json::to_value(&p.sc).unwrap(), p.mode.to_string(), p.strat.clone(), p.rs, seed, has_rdv));
        }
        // the pool is part of the built dispatcher: a variant with another pool gets its own
        let mut own: Option<Built> = None;
        // and a run with an injected panic starts from a fresh dispatcher, so that every record
        // is reproducible on its own (what a panic leaves behind is checked inside that run,
        // by the recovery dispatch, and by disposing that dispatcher afterwards)
        let bref = if p.sc.pool != sc.pool || p.sc.from_pool != sc.from_pool || !p.sc.faults.is_empty() && p.sc.faults.iter().any(|f| f.kind != FaultKind::Rendezvous) {
            own = Some(build(&p.sc, &BuildOpts::default()));
            own.as_mut().unwrap()
        } else {
            &mut b
        };
        let mut o = eval_on(bref, &p.sc, p.mode, &p.strat, p.rs, None);
        if let Some(ob) = own.take() {
            if p.sc.faults.iter().any(|f| f.kind != FaultKind::Rendezvous) {
                // a dispatcher that has been through a caught panic still owns every system
                o.violations.extend(eval_dispose(ob));
            }
        }
        crate::driver::chain(o.digest);
        st.runs += 1 + (p.mode == "cmp") as u64;
        st.steps += o.steps;
        st.switches += o.switches;
        st.tasks += o.tasks;
        Stats::bump(&mut st.strategies, strat_name(&p.strat), 1);
        st.inters.insert(o.inter_digest);
        st.overlap_pairs += o.overlap_pairs;
        let faulted = o.fired.iter().any(|x| x.1);
        if o.overlap_pairs > 0 || faulted {
            st.nontrivial.insert(crate::res::mix(lay_digest, o.inter_digest));
        }
        for (k, f) in &o.fired {
            note_fault(st, *k, *f);
        }
        if o.fired.iter().filter(|(k, f)| *f && matches!(k, FaultKind::PanicBefore | FaultKind::PanicMid | FaultKind::PanicAfter)).count() >= 2 {
            Stats::bump(&mut st.probes, "two_panics_delivered_in_one_dispatch", 1);
        }
        if let StratSpec::Hold(_) = p.strat {
            Stats::bump(&mut st.faults, "hold_stall", 1);
        }
        if p.sc.from_pool.is_some() {
            Stats::bump(&mut st.probes, "dispatch_called_from_foreign_pool_worker", 1);
        }
        if o.max_busy >= 2 {
            Stats::bump(&mut st.probes, "two_workers_busy", 1);
        }
        if o.max_busy >= 4 {
            Stats::bump(&mut st.probes, "four_workers_busy", 1);
        }
        for v in &o.violations {
            push_found(prop, &mut found, st, v, || mk_replay(prop, seed, &p.sc, p.mode, &p.strat, p.rs, Some(o.trace.clone()), o.digest, v));
        }
    }
    *CUR.lock().unwrap() = None;
    for v in eval_dispose(b) {
        // a dispose problem is a property of the scenario, not of a particular run
        push_found(prop, &mut found, st, &v, || mk_replay(prop, seed, &sc, "static", &StratSpec::NoPreempt, 0, None, 0, &v));
    }
    if prop == "C12" {
        st.runs += 1;
        Stats::bump(&mut st.extra, "try_into_sendable_checked", 1);
        for v in check_sendable(&sc) {
            push_found(prop, &mut found, st, &v, || mk_replay(prop, seed, &sc, "static", &StratSpec::NoPreempt, 0, None, 0, &v));
        }
    }
    found
}

#[cfg(feature = "sim")]
fn explore_async(prop: &str, seed: u64, sc: &Scenario, thorough: bool, st: &mut Stats, rng: &mut Rng, found: &mut Vec<Replay>) {
    use crate::afamily::*;
    COMPARE_WITH_SEQ.store(prop == "C05", Ordering::Relaxed);
    let mut b = build_async(sc);
    let lay_digest = fnv(b.layout.canonical().as_bytes());
    st.layouts.insert(lay_digest);
    Stats::bump(&mut st.probes, "async_scenarios", 1);
    if st.samples.len() < 2 && !st.samples.iter().any(|s| s.get("async_ops").is_some()) {
        st.samples.push(json!({"seed": seed, "async_ops": sc.aops, "executed_layout": b.layout.canonical(), "pool": sc.pool, "registration_sequence": sc.regs}));
    }
    let infos = b.ctx.infos.clone();
    let iv = ident_violations(&b.layout);
    if !iv.is_empty() {
        // the synchronous twin of the plan could not even be dispatched once after setup
        for v in &iv {
            push_found(prop, found, st, v, || mk_replay(prop, seed, sc, "static", &StratSpec::NoPreempt, 0, None, 0, v));
        }
        crate::afamily::dispose_async(b);
        return;
    }
    let plan = miri_cut(plan_runs(prop, sc, &infos, &b.layout.clone(), thorough, rng));
    for p in plan {
        let has_rdv = p.sc.faults.iter().any(|f| f.kind == FaultKind::Rendezvous);
        *CUR.lock().unwrap() = Some((serde_json::to_value(&p.sc).unwrap(), "run".to_string(), p.strat.clone(), p.rs, seed, has_rdv));
        let mut own;
        let bref = if p.sc.pool != sc.pool {
            own = build_async(&p.sc);
            &mut own
        } else {
            &mut b
        };
        let o = eval_async_on(bref, &p.sc, &p.strat, p.rs, None);
        crate::driver::chain(o.digest);
        let rebuild = bref.broken;
        for f in p.sc.faults.iter().filter(|f| f.kind != FaultKind::Rendezvous) {
            // (armed; a job that died shows as a rebuilt dispatcher, a setup panic is caught)
            note_fault(st, f.kind, true);
            if rebuild {
                Stats::bump(&mut st.faults, "async_job_died_state_not_handed_back", 1);
            }
        }
        st.runs += 1;
        st.steps += o.steps;
        st.switches += o.switches;
        st.tasks += o.tasks;
        Stats::bump(&mut st.strategies, strat_name(&p.strat), 1);
        st.inters.insert(o.inter_digest);
        st.overlap_pairs += o.overlap_pairs;
        if o.overlap_pairs > 0 || o.blocked_ops > 0 {
            st.nontrivial.insert(crate::res::mix(lay_digest, o.inter_digest));
        }
        Stats::bump(&mut st.faults, "caller_op_blocked_on_job_in_flight", o.blocked_ops);
        for (op, r) in &o.ops {
            Stats::bump(&mut st.extra, &format!("async_op_{:?}", op), 1);
            match r {
                Some(true) => Stats::bump(&mut st.probes, "running_returned_true", 1),
                Some(false) => Stats::bump(&mut st.probes, "running_returned_false", 1),
                None => {}
            }
        }
        if let StratSpec::Hold(_) = p.strat {
            Stats::bump(&mut st.faults, "hold_stall", 1);
        }
        for v in &o.violations {
            push_found(prop, found, st, v, || mk_replay(prop, seed, &p.sc, "run", &p.strat, p.rs, Some(o.trace.clone()), o.digest, v));
        }
        if rebuild {
            let old = std::mem::replace(&mut b, build_async(sc));
            dispose_async(old);
        }
    }
    *CUR.lock().unwrap() = None;
    dispose_async(b);
}

#[derive(Serialize, Deserialize, Debug)]
pub struct EvalOut {
    pub violations: Vec<Violation>,
    pub digest: u64,
    pub trace: Vec<u32>,
    pub steps: u64,
}

/// Run exactly what a replay record describes (trace if present, else strategy + seed).
pub fn eval_replay(r: &Replay) -> EvalOut {
    let sc: Scenario = serde_json::from_value(r.scenario.clone()).expect("scenario");
    #[cfg(feature = "sim")]
    if sc.asyncd && r.mode != "static" {
        crate::afamily::COMPARE_WITH_SEQ.store(r.property == "C05", Ordering::Relaxed);
        let mut b = crate::afamily::build_async(&sc);
        let o = crate::afamily::eval_async_on(&mut b, &sc, &r.strategy, r.run_seed, r.trace.clone());
        crate::afamily::dispose_async(b);
        return EvalOut { violations: o.violations, digest: o.digest, trace: o.trace, steps: o.steps };
    }
    if r.mode == "redundant-barriers" {
        return EvalOut { violations: check_redundant_barriers(&sc), digest: 0, trace: vec![], steps: 0 };
    }
    if r.mode == "nosetup" {
        let nb = build(&sc, &BuildOpts { do_setup: false, ..BuildOpts::default() });
        return EvalOut { violations: eval_dispose(nb), digest: 0, trace: vec![], steps: 0 };
    }
    let mut b = build(&sc, &BuildOpts::default());
    let mut vs = eval_static(&b);
    let mut digest = 0;
    let mut trace = vec![];
    let mut steps = 0;
    if r.mode != "static" {
        let o = eval_on(&mut b, &sc, &r.mode, &r.strategy, r.run_seed, r.trace.clone());
        vs.extend(o.violations);
        digest = o.digest;
        trace = o.trace;
        steps = o.steps;
    }
    vs.extend(eval_dispose(b));
    if r.property == "C12" {
        vs.extend(check_sendable(&sc));
    }
    EvalOut { violations: vs, digest, trace, steps }
}
