//! The dispatcher family of checks (engine S): generated registration
//! sequences run on the real builder / dispatcher over the simulated pool.

use std::collections::{BTreeMap, HashSet};
use std::sync::atomic::Ordering;

use detsim::Rng;
use serde::{Deserialize, Serialize};
use serde_json::json;

use crate::build::{build, BuildOpts, Built};
use crate::oracle::*;
use crate::plan::*;
use crate::run::*;

#[derive(Clone, Debug, Serialize, Deserialize)]
pub struct Replay {
    pub property: String,
    pub family: String,
    pub engine: String,
    pub seed: u64,
    pub scenario: serde_json::Value,
    pub strategy: StratSpec,
    pub run_seed: u64,
    pub trace: Option<Vec<u32>>,
    pub class: String,
    pub msg: String,
    pub digest: u64,
}

#[derive(Default, Serialize, Deserialize, Clone)]
pub struct Stats {
    pub scenarios: u64,
    pub runs: u64,
    pub steps: u64,
    pub switches: u64,
    pub tasks: u64,
    pub faults: BTreeMap<String, u64>,
    pub probes: BTreeMap<String, u64>,
    pub strategies: BTreeMap<String, u64>,
    pub other_prop: BTreeMap<String, u64>,
    pub layouts: HashSet<u64>,
    pub inters: HashSet<u64>,
    pub nontrivial: HashSet<u64>,
    pub overlap_pairs: u64,
    pub kf_hits: BTreeMap<String, u64>,
    pub samples: Vec<serde_json::Value>,
    pub seeds: Vec<u64>,
    pub max_hold_steps: u64,
}

impl Stats {
    pub fn bump(m: &mut BTreeMap<String, u64>, k: &str, n: u64) {
        *m.entry(k.to_string()).or_insert(0) += n;
    }
    pub fn merge(&mut self, o: Stats) {
        self.scenarios += o.scenarios;
        self.runs += o.runs;
        self.steps += o.steps;
        self.switches += o.switches;
        self.tasks += o.tasks;
        self.overlap_pairs += o.overlap_pairs;
        self.max_hold_steps = self.max_hold_steps.max(o.max_hold_steps);
        for (k, v) in o.faults {
            Self::bump(&mut self.faults, &k, v);
        }
        for (k, v) in o.probes {
            Self::bump(&mut self.probes, &k, v);
        }
        for (k, v) in o.strategies {
            Self::bump(&mut self.strategies, &k, v);
        }
        for (k, v) in o.other_prop {
            Self::bump(&mut self.other_prop, &k, v);
        }
        for (k, v) in o.kf_hits {
            Self::bump(&mut self.kf_hits, &k, v);
        }
        self.layouts.extend(o.layouts);
        self.inters.extend(o.inters);
        self.nontrivial.extend(o.nontrivial);
        for s in o.samples {
            if self.samples.len() < 3 {
                self.samples.push(s);
            }
        }
        self.seeds.extend(o.seeds);
    }
}

pub fn gen_cfg(prop: &str, rng: &mut Rng) -> GenCfg {
    let mut c = GenCfg::default();
    match prop {
        "C04" | "C18" => {
            c.big = rng.chance(1, 25);
            c.max_sys = 30;
        }
        "C02" | "C03" => {
            c.max_sys = 12;
        }
        "C07" => {
            c.max_sys = 10;
            c.max_depth = 3;
        }
        _ => {}
    }
    c
}

pub fn gen_for(prop: &str, seed: u64) -> Scenario {
    let mut rng = Rng::sub(seed, 9);
    let cfg = gen_cfg(prop, &mut rng);
    let mut sc = gen_scenario(seed, &cfg);
    // property-specific bias: regenerate until the scenario has what the property is about
    let mut tries = 0;
    loop {
        let ok = match prop {
            "C02" => has_dep(&sc.regs),
            "C03" => has_barrier(&sc.regs),
            "C07" => has_batch(&sc.regs),
            "C12" => has_tl(&sc.regs),
            _ => true,
        };
        if ok || tries >= 12 {
            break;
        }
        tries += 1;
        sc = gen_scenario(seed.wrapping_mul(31).wrapping_add(tries), &cfg);
    }
    if prop == "C01" || prop == "C02" || prop == "C03" || prop == "C07" {
        // parallel calls only make these interesting
        for c in sc.calls.iter_mut() {
            if *c == Call::DispatchTl {
                *c = Call::Dispatch;
            }
        }
    }
    sc
}

fn has_dep(r: &[Reg]) -> bool {
    r.iter().any(|x| match x {
        Reg::Sys { deps, .. } => !deps.is_empty(),
        Reg::Batch { deps, inner, .. } => !deps.is_empty() || has_dep(inner),
        _ => false,
    })
}
fn has_barrier(r: &[Reg]) -> bool {
    r.iter().any(|x| match x {
        Reg::Barrier => true,
        Reg::Batch { inner, .. } => has_barrier(inner),
        _ => false,
    })
}
fn has_batch(r: &[Reg]) -> bool {
    r.iter().any(|x| matches!(x, Reg::Batch { .. }))
}
fn has_tl(r: &[Reg]) -> bool {
    r.iter().any(|x| match x {
        Reg::Tl { .. } => true,
        Reg::Batch { inner, .. } => has_tl(inner),
        _ => false,
    })
}

fn strat_name(s: &StratSpec) -> &'static str {
    match s {
        StratSpec::Random => "random",
        StratSpec::LowSwitch(_) => "low-switch",
        StratSpec::MaxOverlap => "max-overlap",
        StratSpec::Hold(_) => "hold",
        StratSpec::Pct(_) => "pct",
        StratSpec::RoundRobin => "round-robin",
        StratSpec::NoPreempt => "no-preempt",
    }
}

/// Which runs to make for one scenario.
pub fn plan_runs(prop: &str, b: &Built, thorough: bool, rng: &mut Rng) -> Vec<(StratSpec, u64)> {
    let infos = &b.ctx.infos;
    let mut v: Vec<(StratSpec, u64)> = Vec::new();
    v.push((StratSpec::MaxOverlap, rng.next_u64()));
    let mut holds: Vec<usize> = match prop {
        "C02" => {
            let mut d: Vec<usize> = infos.iter().flat_map(|i| i.deps.iter().copied()).collect();
            d.sort();
            d.dedup();
            d
        }
        "C03" => {
            let maxe = infos.iter().map(|i| i.epoch).max().unwrap_or(0);
            infos.iter().filter(|i| i.kind != Kind::Tl && i.epoch < maxe).map(|i| i.sid).collect()
        }
        "C04" => vec![],
        _ => infos.iter().filter(|i| i.kind != Kind::Tl).map(|i| i.sid).collect(),
    };
    let cap = if thorough { 64 } else { 16 };
    if holds.len() > cap {
        rng.shuffle(&mut holds);
        holds.truncate(cap);
        holds.sort();
    }
    for h in holds {
        v.push((StratSpec::Hold(h), rng.next_u64()));
    }
    let nrand = if thorough { 6 } else { 3 };
    for k in 0..nrand {
        let s = match k % 4 {
            0 => StratSpec::Random,
            1 => StratSpec::LowSwitch(100),
            2 => StratSpec::Pct(1 + (rng.below(3) as u32)),
            _ => StratSpec::RoundRobin,
        };
        v.push((s, rng.next_u64()));
    }
    v
}

/// All violations (of every property) visible in one run.
pub fn eval_run(sc: &Scenario, b: &Built, ro: &RunOut, kf: &mut Vec<String>, overlap_pairs: &mut u64) -> Vec<Violation> {
    let infos = &b.ctx.infos;
    let mut out = Vec::new();
    let h = history(&ro.events, infos);
    *overlap_pairs += check_isolation(&h, infos, &mut out);
    check_borrow_noise(sc, ro, &mut out);
    check_deps(&h, infos, &mut out);
    check_barriers(&h, infos, &mut out);
    check_counts(sc, &h, infos, ro, &mut out);
    check_tl(&h, infos, 0, &mut out, kf);
    check_cells_free(ro, &mut out);
    match &ro.outcome {
        detsim::Outcome::Done => {}
        o => out.push(Violation { prop: "HARNESS".into(), class: "outcome".into(), msg: format!("{:?}", o) }),
    }
    for e in &ro.escaped {
        out.push(Violation { prop: "HARNESS".into(), class: "escaped-panic".into(), msg: e.clone() });
    }
    if !sc.faults.iter().any(|f| matches!(f.kind, FaultKind::PanicBefore | FaultKind::PanicMid | FaultKind::PanicAfter | FaultKind::Undeclared)) {
        for (ci, c) in ro.calls.iter().enumerate() {
            if let Some(p) = &c.panic {
                if !crate::util::is_borrow_panic(p) {
                    out.push(Violation {
                        prop: "HARNESS".into(),
                        class: "unexpected-panic".into(),
                        msg: format!("call #{} panicked without an injected fault: {}", ci, p.lines().next().unwrap_or("")),
                    });
                }
            }
        }
    }
    out
}

/// Static checks on the built structure (shape sums etc.), independent of any run.
pub fn eval_static(prop: &str, b: &Built) -> Vec<Violation> {
    let mut out = Vec::new();
    let infos = &b.ctx.infos;
    if !b.layout.shape_ok {
        for p in &b.layout.problems {
            out.push(Violation { prop: "C04".into(), class: "shape-sum".into(), msg: p.clone() });
        }
    }
    let want_top = infos.iter().filter(|i| i.parent.is_none() && i.kind != Kind::Tl).count();
    let got_top: usize = b.layout.top.iter().map(|s| s.iter().map(|g| g.len()).sum::<usize>()).sum();
    if want_top != got_top {
        out.push(Violation {
            prop: "C04".into(),
            class: "shape-sum".into(),
            msg: format!("{} systems/batches registered at top level, the executed plan holds {}", want_top, got_top),
        });
    }
    let want_tl = infos.iter().filter(|i| i.parent.is_none() && i.kind == Kind::Tl).count();
    if want_tl != b.layout.tl_top {
        out.push(Violation {
            prop: "C04".into(),
            class: "shape-sum".into(),
            msg: format!("{} thread-local systems registered, dispatcher holds {}", want_tl, b.layout.tl_top),
        });
    }
    for (bs, l) in &b.layout.inner {
        let want = infos.iter().filter(|i| i.parent == Some(*bs) && i.kind != Kind::Tl).count();
        let got: usize = l.iter().map(|s| s.iter().map(|g| g.len()).sum::<usize>()).sum();
        if want != got {
            out.push(Violation {
                prop: "C04".into(),
                class: "shape-sum".into(),
                msg: format!("batch {}: {} systems registered inside, its executed plan holds {}", bs, want, got),
            });
        }
    }
    // setup reached every system exactly once (C13)
    for i in infos.iter() {
        let n = b.ctx.states[i.sid].setup.load(Ordering::SeqCst);
        // a batch's own counter is not incremented by anything (its controller has no setup hook)
        if i.kind != Kind::Batch && n != 1 {
            out.push(Violation {
                prop: "C13".into(),
                class: "setup-count".into(),
                msg: format!("system {} (depth {}, {:?}) had its setup called {} time(s) by one Dispatcher::setup", i.sid, i.depth, i.kind, n),
            });
        }
    }
    let _ = prop;
    out
}

pub struct Found {
    pub replay: Replay,
}

/// What the worker is executing right now (for the fatal handler: a deadlocked run cannot
/// return, so the record is assembled from here).
pub static CUR: std::sync::Mutex<Option<(serde_json::Value, StratSpec, u64, u64, bool)>> = std::sync::Mutex::new(None);

pub fn current_record(prop: &str, class: &str, msg: String, trace: Vec<u32>) -> Option<Replay> {
    let g = CUR.lock().unwrap();
    let (sc, strat, rs, seed, has_rdv) = g.as_ref()?.clone();
    let p = if prop == "C11" || has_rdv { "C11" } else { "C04" };
    Some(Replay {
        property: p.to_string(),
        family: "D".into(),
        engine: "S".into(),
        seed,
        scenario: sc,
        strategy: strat,
        run_seed: rs,
        trace: Some(trace),
        class: class.to_string(),
        msg,
        digest: 0,
    })
}

fn mk_replay(prop: &str, seed: u64, sc: &Scenario, strat: &StratSpec, run_seed: u64, ro: Option<&RunOut>, v: &Violation) -> Replay {
    Replay {
        property: prop.to_string(),
        family: "D".into(),
        engine: "S".into(),
        seed,
        scenario: serde_json::to_value(sc).unwrap(),
        strategy: strat.clone(),
        run_seed,
        trace: ro.map(|r| r.trace.clone()),
        class: v.class.clone(),
        msg: v.msg.clone(),
        digest: ro.map(|r| log_digest(&r.events)).unwrap_or(0),
    }
}

fn layout_probes(b: &Built, st: &mut Stats) {
    let mut maxg = 0;
    let mut all: Vec<&Vec<Vec<Vec<usize>>>> = vec![&b.layout.top];
    for (_, l) in &b.layout.inner {
        all.push(l);
    }
    for l in all {
        for s in l {
            for g in s {
                maxg = maxg.max(g.len());
            }
            if s.len() >= 4 {
                Stats::bump(&mut st.probes, "stage_width_ge4", 1);
            }
        }
        if l.len() >= 8 {
            Stats::bump(&mut st.probes, "stages_ge8", 1);
        }
    }
    if maxg >= 4 {
        Stats::bump(&mut st.probes, "group_reached_4", 1);
    }
    if maxg >= 2 {
        Stats::bump(&mut st.probes, "group_ge2", 1);
    }
    let depth = b.ctx.infos.iter().map(|i| i.depth).max().unwrap_or(0);
    if depth >= 2 {
        Stats::bump(&mut st.probes, "batch_depth_ge2", 1);
    }
    if depth >= 3 {
        Stats::bump(&mut st.probes, "batch_depth_3", 1);
    }
    // dependency satisfied inside a joined group
    for i in b.ctx.infos.iter() {
        for &d in &i.deps {
            if let (Some(a), Some(c)) = (b.layout.pos[d], b.layout.pos[i.sid]) {
                if a.0 == c.0 && a.1 == c.1 {
                    Stats::bump(&mut st.probes, "dep_in_same_group", 1);
                }
                if a.0 == c.0 && a.1 != c.1 {
                    Stats::bump(&mut st.probes, "dep_same_stage_other_group", 1);
                }
            }
        }
    }
}

/// Explore one seed for property `prop`. Returns the first violation of that property.
pub fn explore(prop: &str, seed: u64, thorough: bool, st: &mut Stats) -> Option<Found> {
    let sc = gen_for(prop, seed);
    st.scenarios += 1;
    st.seeds.push(seed);
    let mut rng = Rng::sub(seed, 2);
    let mut b = build(&sc, &BuildOpts::default());
    st.layouts.insert(fnv(b.layout.canonical().as_bytes()));
    layout_probes(&b, st);
    if st.samples.is_empty() {
        st.samples.push(json!({"seed": seed, "systems": count_systems(&sc.regs), "layout": b.layout.canonical(), "calls": sc.calls, "pool": sc.pool, "regs": sc.regs}));
    }
    for v in eval_static(prop, &b) {
        if v.prop == prop {
            return Some(Found { replay: mk_replay(prop, seed, &sc, &StratSpec::NoPreempt, 0, None, &v) });
        } else {
            Stats::bump(&mut st.other_prop, &v.prop, 1);
        }
    }
    let lay_digest = fnv(b.layout.canonical().as_bytes());
    let scj = serde_json::to_value(&sc).unwrap();
    let has_rdv = sc.faults.iter().any(|f| f.kind == FaultKind::Rendezvous);
    for (strat, rs) in plan_runs(prop, &b, thorough, &mut rng) {
        *CUR.lock().unwrap() = Some((scj.clone(), strat.clone(), rs, seed, has_rdv));
        let ro = run_calls(&mut b, &sc, &strat, rs, None);
        st.runs += 1;
        st.steps += ro.steps;
        st.switches += ro.switches;
        st.tasks += ro.tasks as u64;
        Stats::bump(&mut st.strategies, strat_name(&strat), 1);
        let idg = interleaving_digest(&ro.events);
        st.inters.insert(idg);
        let mut kf = Vec::new();
        let mut ov = 0;
        let vs = eval_run(&sc, &b, &ro, &mut kf, &mut ov);
        st.overlap_pairs += ov;
        if ov > 0 {
            st.nontrivial.insert(crate::res::mix(lay_digest, idg));
        }
        for k in kf {
            let key = k.split_whitespace().next().unwrap_or("KF").to_string();
            Stats::bump(&mut st.kf_hits, &key, 1);
        }
        if ro.max_busy >= 2 {
            Stats::bump(&mut st.probes, "two_workers_busy", 1);
        }
        for v in vs {
            if v.prop == prop {
                return Some(Found { replay: mk_replay(prop, seed, &sc, &strat, rs, Some(&ro), &v) });
            } else {
                Stats::bump(&mut st.other_prop, &v.prop, 1);
            }
        }
    }
    drop_built(b, st);
    None
}

pub fn drop_built(mut b: Built, _st: &mut Stats) {
    if let Some(d) = b.disp.take() {
        d.dispose(&mut b.world);
    }
}

#[derive(Serialize, Deserialize, Debug)]
pub struct EvalOut {
    pub violations: Vec<Violation>,
    pub digest: u64,
    pub trace: Vec<u32>,
    pub steps: u64,
}

/// Run exactly what a replay record describes (trace if present, else strategy + seed).
pub fn eval_replay(r: &Replay) -> EvalOut {
    let sc: Scenario = serde_json::from_value(r.scenario.clone()).expect("scenario");
    let mut b = build(&sc, &BuildOpts::default());
    let mut vs = eval_static(&r.property, &b);
    if r.trace.is_none() && r.run_seed == 0 && matches!(r.strategy, StratSpec::NoPreempt) && !vs.is_empty() {
        return EvalOut { violations: vs, digest: 0, trace: vec![], steps: 0 };
    }
    let ro = run_calls(&mut b, &sc, &r.strategy, r.run_seed, r.trace.clone());
    let mut kf = Vec::new();
    let mut ov = 0;
    vs.extend(eval_run(&sc, &b, &ro, &mut kf, &mut ov));
    EvalOut { violations: vs, digest: log_digest(&ro.events), trace: ro.trace, steps: ro.steps }
}
