//! Harness entry point.
//!
//!   hsim check  <PROP> <quick|thorough>     parent: workers, shrinking, evidence, VIOLATION lines
//!   hsim worker <PROP> <tier> <base> <stride> <offset> <startk> <deadline_ms> <maxk> <core>
//!   hsim eval   <file>                      run one replay record, print `EVAL <json>`
//!   hsim replay <file>                      same, human readable; exit 1 if it reproduces

#[cfg(feature = "sim")]
mod afamily;
mod build;
mod cfamily;
mod dfamily;
mod driver;
mod hashseed;
mod oracle;
#[cfg(feature = "sim")]
mod miri_tier;
#[cfg(feature = "sim")]
mod pfamily;
mod plan;
mod props;
mod res;
mod run;
mod shrink;
mod sys;
mod util;
#[cfg(feature = "sim")]
mod w8;
#[cfg(feature = "sim")]
mod w9;
#[cfg(feature = "sim")]
mod zoo;
#[cfg(feature = "sim")]
mod zoo_gen;

fn main() {
    let args: Vec<String> = std::env::args().collect();
    if args.len() < 2 {
        eprintln!("usage: hsim check|worker|eval|replay ...");
        std::process::exit(2);
    }
    hashseed::install();
    match args[1].as_str() {
        "check" => driver::cmd_check(&args[2], args.get(3).map(|s| s.as_str()).unwrap_or("quick")),
        "worker" => driver::cmd_worker(&args[2..]),
        "eval" => driver::cmd_eval(&args[2], false),
        "replay" => driver::cmd_eval(&args[2], true),
        #[cfg(feature = "sim")]
        "miri" => miri_tier::cmd_miri(&args[2], args[3].parse().unwrap(), args[4].parse().unwrap()),
        "show" => {
            // print the scenario a seed generates for a property (debugging aid)
            let sc = dfamily::gen_for(&args[2], args[3].parse().unwrap());
            println!("{}", serde_json::to_string(&sc).unwrap());
        }
        "xdigest" => driver::cmd_xdigest(&args[2], args[3].parse().unwrap(), args[4].parse().unwrap()),
        _ => {
            eprintln!("unknown subcommand");
            std::process::exit(2);
        }
    }
}
