//! Per-property descriptions used in the evidence files.

use serde_json::{json, Value};

pub fn level(prop: &str) -> &'static str {
    match prop {
        "C06" | "C14" => "fault_enumeration",
        _ => "exploration",
    }
}

fn family(prop: &str) -> &'static str {
    crate::driver::family_of(prop)
}

pub fn describe(prop: &str) -> (&'static str, String, Value) {
    let fam = family(prop);
    let components = match fam {
        "W8" | "W9" | "Z" => json!({
            "real_code": ["shred World / Fetch / FetchMut / Read / Write / Option forms / Entry / MetaTable / MetaIter(Mut) / tuple and derive expansions of SystemData (unmodified working tree, compiled through the shadow manifest)", "atomic_refcell (the borrow flags)", "ahash"],
            "stubbed": [],
            "simulator": if fam == "W8" { json!(["detsim scheduler: 1-4 client tasks as OS threads + baton, seeded strategies, choice trace", "reference borrow-state model + reference registration list", "thorough tier: Miri's seeded scheduler on real threads"]) } else if fam == "W9" { json!(["seeded history generator with injected callback panics", "reference typed map + drop counters", "thorough tier: the same histories under Miri"]) } else { json!(["enumeration of (type, failing member) crash points + seeded multi-failure subsets", "independent Describe oracle"]) },
            "not_involved": ["dispatcher, rayon"],
        }),
        _ => json!({
            "real_code": ["shred builder / stage packing / dispatcher / batch / async dispatcher / par_seq / world (unmodified working tree, compiled through the shadow manifest for engine S, directly for engine R and the no-parallel build)", "atomic_refcell", "ahash (keys supplied by the simulator through its random-source seam)", "arrayvec", "smallvec", "std::sync::mpsc (async dispatcher: real channel, reached through the detach protocol)", "engine R phase: the real rayon pool"],
            "stubbed": ["engine S: rayon -> simrayon (worker-slot model on detsim; DESIGN.md 2.2)"],
            "simulator": ["detsim scheduler: OS threads + baton, seeded strategies (random, low-switch, PCT, round-robin, max-overlap, hold), choice trace, shrinking", "engine R: detsim::ext - real threads parked at scheduler points, controller decides at /proc-observed quiescence", "detsim monitor: a baton holder that blocks in the kernel without announcing it is detached after 100 ms asleep (counted as implicit detaches; 0 on a tree whose only blocking calls are the announced ones)", "thorough tier of C01, C04, C07, C12, C14, C15: the same generated plans on plain threads (stand-in pool in pass-through mode) under Miri's seeded scheduler, 16 processes with one Miri seed each; Miri's data-race detector and aliasing model are additional oracles"],
        }),
    };
    let rule = match fam {
        "Z" => "evaluations = fetch / setup / declared-list cases executed. The enumerated space is complete: for each of the 281 types every distinct resource of a member is made absent in turn, plus all-present, plus setup on the empty, the full and a half-filled world; beyond that seeded subsets of absent / present resources. distinct_nontrivial = distinct (type, case) pairs of the enumeration plus distinct sampled cases.".to_string(),
        "W9" => "evaluations = operation histories executed against the reference typed map (4-44 operations over up to 6 types x 4 dynamic ids). distinct_nontrivial = distinct histories containing at least one call with a mismatching type argument or an injected callback panic (Default, or_insert_with closure, Drop).".to_string(),
        "W8" => "evaluations = simulated executions of a generated multi-client scenario under one seeded schedule. distinct_nontrivial = distinct (scenario, operation interleaving) digests among executions in which a borrow was refused or a task unwound through its guards.".to_string(),
        "C" => "evaluations = builds of generated registration sequences (the original plus every transformed variant / every formatting). distinct_nontrivial = distinct registration sequences with at least two systems.".to_string(),
        "P" => "evaluations = simulated executions of a run-time assembled Par/Seq tree (or construction attempts that the debug check must reject). distinct_nontrivial = distinct (tree, interleaving) digests with two leaves inside their windows at once, plus distinct rejected trees.".to_string(),
        _ => "evaluations = simulated executions (one strategy run of one generated scenario's call sequence; engine S plus the engine R phase where the property has one). distinct_nontrivial = distinct (executed layout digest, interleaving digest of the (event kind, system) order) pairs among runs in which at least two systems of one dispatch were inside their windows at the same time, a fault was delivered, or a caller operation had to block on a job in flight.".to_string(),
    };
    (level(prop), rule, components)
}

pub fn assumptions(prop: &str) -> Vec<String> {
    let fam = family(prop);
    let mut v = vec!["seeded sampling: a clean batch is evidence, not proof".to_string()];
    if !matches!(fam, "W8" | "W9" | "Z") {
        v.push("engine S: the stand-in pool over-approximates rayon's system-level interleavings for the same worker count (DESIGN.md 2.2); liveness is only asserted with at least as many workers as required jobs".to_string());
        v.push("harness systems only touch what they declare".to_string());
        v.push("engine R: quiescence is read from /proc/self/task/*/stat and schedstat; the process has no timers, so a quiescent state can only be left through a controller decision".to_string());
    }
    if fam == "W8" {
        v.push("operations of client tasks are atomic with respect to the scheduler (one baton holder); instruction-level interleavings of the borrow counter are the Miri tier's business".to_string());
    }
    if prop == "C12" {
        v.push("known finding KF1 (thread-local system inside a batch runs on a pool worker) is reported as KNOWN-FINDING, see known_findings.json".into());
    }
    if prop == "C11" {
        v.push("known finding KF2 (batch nested two levels deep ignores the supplied pool) is reported as KNOWN-FINDING, see known_findings.json".into());
    }
    v
}
