//! Per-property descriptions used in the evidence files.

use serde_json::{json, Value};

pub fn level(prop: &str) -> &'static str {
    match prop {
        "C06" | "C14" => "fault_enumeration",
        _ => "exploration",
    }
}

pub fn describe(prop: &str) -> (&'static str, String, Value) {
    let components = json!({
        "real_code": ["shred builder / stage packing / dispatcher / batch / async dispatcher / world (unmodified working tree, compiled through the shadow manifest)", "atomic_refcell", "ahash (keys supplied by the simulator through set_random_source)", "arrayvec", "smallvec"],
        "stubbed": ["rayon -> simrayon (worker-slot model on detsim; see DESIGN.md 2.2)"],
        "simulator": ["detsim scheduler: OS threads + baton, seeded strategies, choice trace"],
    });
    let rule = match prop {
        "C01" | "C02" | "C03" | "C04" | "C07" | "C12" | "C13" => "evaluations = simulated executions (one strategy run of one generated scenario's call sequence). distinct_nontrivial = number of distinct (executed layout digest, interleaving digest of the (event kind, system) order) pairs among runs in which at least two systems of one dispatch were inside their windows at the same time.".to_string(),
        _ => "evaluations = simulated executions; distinct_nontrivial = distinct (layout, interleaving) digests with real overlap or an injected fault".to_string(),
    };
    (level(prop), rule, components)
}

pub fn assumptions(prop: &str) -> Vec<String> {
    let mut v = vec![
        "the stand-in pool over-approximates rayon's system-level interleavings for the same worker count (DESIGN.md 2.2)".to_string(),
        "harness systems only touch what they declare unless an Undeclared fault is injected".to_string(),
        "seeded sampling: a clean batch is evidence, not proof".to_string(),
    ];
    if prop == "C12" {
        v.push("known finding KF1 (thread-local system inside a batch runs on a pool worker) is reported as KNOWN-FINDING, see known_findings.json".into());
    }
    v
}
