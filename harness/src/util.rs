use std::any::Any;

pub fn payload_string(p: &Box<dyn Any + Send>) -> String {
    if let Some(s) = p.downcast_ref::<&'static str>() {
        s.to_string()
    } else if let Some(s) = p.downcast_ref::<String>() {
        s.clone()
    } else {
        "<non-string payload>".to_string()
    }
}

/// Silence the default panic hook (injected panics are part of normal runs).
pub fn quiet_panics() {
    if std::env::var_os("VERIF_SHOW_PANICS").is_some() {
        return;
    }
    std::panic::set_hook(Box::new(|_| {}));
}

pub fn is_borrow_panic(msg: &str) -> bool {
    msg.contains("already borrowed") || msg.contains("already mutably borrowed") || msg.contains("already immutably borrowed")
}
