//! Process orchestration: 16 pinned worker processes fed disjoint seed
//! sequences derived from VERIF_SEED, violation collection, minimisation,
//! replay confirmation, known findings, evidence.

use std::collections::BTreeMap;
use std::io::{BufRead, BufReader, Write};
use std::process::{Command, Stdio};
use std::sync::mpsc;
use std::time::{Duration, Instant, SystemTime, UNIX_EPOCH};

use serde_json::{json, Value};

use crate::dfamily::{self, EvalOut, Replay, Stats};
use crate::oracle::Violation;

pub const DEFAULT_SEED: u64 = 20260926;

pub fn verif_dir() -> String {
    std::env::var("VERIF_DIR").unwrap_or_else(|_| "/verif".to_string())
}

/// Where evidence and replay files go (VERIF_OUT redirects them for sensitivity campaigns).
pub fn out_dir() -> String {
    std::env::var("VERIF_OUT").unwrap_or_else(|_| verif_dir())
}

fn now_ms() -> u64 {
    SystemTime::now().duration_since(UNIX_EPOCH).unwrap().as_millis() as u64
}

fn pin_to_core(core: usize) {
    unsafe {
        let mut set: libc::cpu_set_t = std::mem::zeroed();
        libc::CPU_SET(core % num_cpus(), &mut set);
        libc::sched_setaffinity(0, std::mem::size_of::<libc::cpu_set_t>(), &set);
    }
}

fn num_cpus() -> usize {
    std::thread::available_parallelism().map(|n| n.get()).unwrap_or(1)
}

pub fn family_of(prop: &str) -> &'static str {
    match prop {
        "C01" | "C02" | "C03" | "C04" | "C05" | "C07" | "C11" | "C12" | "C13" | "C14" | "C15" => "D",
        "C06" => "Z",
        "C09" => "W9",
        "C08" | "C17" => "W8",
        "C16" => "P",
        "C19" | "C20" => "C",
        _ => "?",
    }
}

/// One seed of one property: returns a replay record for the first violation found.
/// `index` is the position of the seed in the global seed sequence (0, 1, 2, ... over all
/// workers). `None` = this family's space is exhausted at that index.
pub fn explore(prop: &str, seed: u64, index: u64, thorough: bool, st: &mut Stats) -> Option<Vec<Replay>> {
    match family_of(prop) {
        "D" => {
            let mut v = dfamily::explore(prop, seed, thorough, st);
            #[cfg(feature = "sim")]
            if prop == "C13" {
                v.extend(crate::zoo::explore_setup_for_c13(index, seed, st));
            }
            Some(v)
        }
        #[cfg(feature = "sim")]
        "Z" => crate::zoo::explore(index, seed, thorough, st),
        #[cfg(feature = "sim")]
        "W9" => Some(crate::w9::explore(seed, st)),
        #[cfg(feature = "sim")]
        "W8" => Some(crate::w8::explore(prop, seed, thorough, st)),
        #[cfg(feature = "sim")]
        "P" => Some(crate::pfamily::explore(seed, thorough, st)),
        "C" => Some(crate::cfamily::explore(prop, seed, thorough, st)),
        _ => panic!("no engine for property {}", prop),
    }
}

pub fn eval(r: &Replay) -> EvalOut {
    match r.family.as_str() {
        "D" => dfamily::eval_replay(r),
        #[cfg(feature = "sim")]
        "Z" => crate::zoo::eval_replay(r),
        #[cfg(feature = "sim")]
        "W9" => crate::w9::eval_replay(r),
        #[cfg(feature = "sim")]
        "W8" => crate::w8::eval_replay(r),
        #[cfg(feature = "sim")]
        "P" => crate::pfamily::eval_replay(r),
        "X" => eval_xbuild(r),
        "C" => crate::cfamily::eval_replay(r),
        f => panic!("unknown family {}", f),
    }
}

// ------------------------------------------------------------------------------------------------
// worker

/// Order-sensitive chain over the event-log digests of every execution of the current seed
/// (printed per seed when VERIF_DIGESTS is set: the determinism double-run diffs these lines).
pub static RUN_CHAIN: std::sync::atomic::AtomicU64 = std::sync::atomic::AtomicU64::new(0);

pub fn chain(d: u64) {
    if std::env::var("VERIF_DIGESTS").map(|v| v == "2").unwrap_or(false) {
        println!("RUNDIGEST {:016x}", d);
    }
    let c = RUN_CHAIN.load(std::sync::atomic::Ordering::Relaxed);
    RUN_CHAIN.store(crate::res::mix(c, d), std::sync::atomic::Ordering::Relaxed);
}

/// Set by worker processes of engine R (see dfamily::gen_cfg).
pub static SMALL_PLANS: std::sync::atomic::AtomicBool = std::sync::atomic::AtomicBool::new(false);
/// Miri tier of the dispatcher families: tiny plans, a handful of planned runs per scenario, no
/// rendezvous directives (liveness is not the business of that tier).
pub static MIRI_PLANS: std::sync::atomic::AtomicBool = std::sync::atomic::AtomicBool::new(false);

/// Deadline of the current worker (ms since the epoch); long scenarios stop between runs.
pub static DEADLINE_MS: std::sync::atomic::AtomicU64 = std::sync::atomic::AtomicU64::new(u64::MAX);

pub fn past_deadline() -> bool {
    now_ms() > DEADLINE_MS.load(std::sync::atomic::Ordering::Relaxed)
}

static CUR_SEED: std::sync::atomic::AtomicU64 = std::sync::atomic::AtomicU64::new(0);
static CUR_K: std::sync::atomic::AtomicU64 = std::sync::atomic::AtomicU64::new(0);

static MONITOR_SEEN: std::sync::atomic::AtomicU64 = std::sync::atomic::AtomicU64::new(0);

/// How often detsim's monitor had to detach a baton holder that blocked in the kernel without
/// announcing it (never, unless the tree has grown a blocking call the harness does not know).
fn note_monitor(st: &mut Stats) {
    let now = detsim::implicit_detaches();
    let before = MONITOR_SEEN.swap(now, std::sync::atomic::Ordering::Relaxed);
    Stats::bump(&mut st.faults, "unannounced_os_block_detached_by_monitor", now - before);
}

/// Records are kept one per class - but a record that matches a listed known finding must not
/// take the place of one of the same class that does not (a different cause).
fn class_key(kfs: &[Value], r: &Replay) -> String {
    if match_known(kfs, &r.property, &r.class, &r.msg).is_some() {
        format!("{}#known", r.class)
    } else {
        r.class.clone()
    }
}

pub fn cmd_worker(a: &[String]) {
    let prop = a[0].clone();
    let thorough = a[1] == "thorough";
    let base: u64 = a[2].parse().unwrap();
    let stride: u64 = a[3].parse().unwrap();
    let offset: u64 = a[4].parse().unwrap();
    let startk: u64 = a[5].parse().unwrap();
    let deadline: u64 = a[6].parse().unwrap();
    let maxk: u64 = a[7].parse().unwrap();
    let core: usize = a[8].parse().unwrap();
    DEADLINE_MS.store(deadline.saturating_add(1500), std::sync::atomic::Ordering::Relaxed);
    SMALL_PLANS.store(cfg!(feature = "real"), std::sync::atomic::Ordering::Relaxed);
    if !cfg!(feature = "real") {
        pin_to_core(core);
    }
    crate::util::quiet_panics();
    {
        let prop = prop.clone();
        detsim::set_fatal_handler(Box::new(move |rep| {
            // deadlock / step limit: the run cannot be unwound; report and end the process
            let seed = CUR_SEED.load(std::sync::atomic::Ordering::SeqCst);
            let k = CUR_K.load(std::sync::atomic::Ordering::SeqCst);
            let out = std::io::stdout();
            let mut o = out.lock();
            let class = if matches!(rep.outcome, detsim::Outcome::Deadlock(_)) { "deadlock" } else { "step-limit" };
            if let Some(r) = dfamily::current_record(&prop, class, format!("{:?}", rep.outcome), rep.trace.clone()) {
                let _ = writeln!(o, "FOUND {}", serde_json::to_string(&json!({"k": k, "replay": r})).unwrap());
            }
            let _ = writeln!(o, "FATAL {}", json!({"seed": seed, "k": k, "prop": prop, "outcome": format!("{:?}", rep.outcome)}));
            let _ = o.flush();
            std::process::exit(3);
        }));
    }
    let mut st = Stats::default();
    let mut k = startk;
    let out = std::io::stdout();
    let mut reported: BTreeMap<String, u32> = BTreeMap::new();
    let kfs_w = known_findings();
    let print_digests = std::env::var("VERIF_DIGESTS").is_ok();
    while k < maxk && now_ms() < deadline {
        let seed = base.wrapping_add(offset).wrapping_add(k.wrapping_mul(stride));
        CUR_SEED.store(seed, std::sync::atomic::Ordering::SeqCst);
        CUR_K.store(k, std::sync::atomic::Ordering::SeqCst);
        let index = offset + k * stride;
        RUN_CHAIN.store(0, std::sync::atomic::Ordering::Relaxed);
        let r = std::panic::catch_unwind(std::panic::AssertUnwindSafe(|| explore(&prop, seed, index, thorough, &mut st)));
        match r {
            Ok(None) => break,
            Ok(Some(reps)) => {
                for rep in reps {
                    // the parent keeps the first record per class (listed known findings apart
                    // from everything else); do not flood it
                    let n = reported.entry(class_key(&kfs_w, &rep)).or_insert(0);
                    *n += 1;
                    if *n > 2 {
                        continue;
                    }
                    let mut o = out.lock();
                    let _ = writeln!(o, "FOUND {}", serde_json::to_string(&json!({"k": k, "replay": rep})).unwrap());
                    let _ = o.flush();
                }
            }
            Err(p) => {
                let mut o = out.lock();
                let _ = writeln!(o, "HARNESS {}", json!({"seed": seed, "k": k, "msg": crate::util::payload_string(&p)}));
                let _ = o.flush();
            }
        }
        if print_digests {
            let mut o = out.lock();
            let _ = writeln!(o, "DIGEST {} {:016x}", seed, RUN_CHAIN.load(std::sync::atomic::Ordering::Relaxed));
        }
        k += 1;
        if k % 16 == 0 {
            // flush statistics regularly: a run that deadlocks ends this process
            note_monitor(&mut st);
            let mut o = out.lock();
            let _ = writeln!(o, "STATS {}", serde_json::to_string(&st).unwrap());
            let _ = o.flush();
            st = Stats::default();
        }
    }
    note_monitor(&mut st);
    let mut o = out.lock();
    let _ = writeln!(o, "STATS {}", serde_json::to_string(&st).unwrap());
    let _ = writeln!(o, "DONE");
    let _ = o.flush();
}

// ------------------------------------------------------------------------------------------------
// eval / replay

static RDV_SCEN: std::sync::Mutex<Option<crate::plan::Scenario>> = std::sync::Mutex::new(None);

pub fn cmd_eval(file: &str, human: bool) {
    crate::util::quiet_panics();
    // like the search workers: one core. (What the process can see of the machine - e.g.
    // `std::thread::available_parallelism` - is part of the environment of a run; a replay must
    // see what the run saw.)
    pin_to_core(std::process::id() as usize);
    let txt = std::fs::read_to_string(file).expect("read replay file");
    let r: Replay = serde_json::from_str(&txt).expect("parse replay file");
    {
        let prop = r.property.clone();
        detsim::set_fatal_handler(Box::new(move |rep| {
            let class = match &rep.outcome {
                detsim::Outcome::Deadlock(_) => "deadlock",
                _ => "step-limit",
            };
            let mut msg = format!("{:?}", rep.outcome);
            if let Some(sc) = RDV_SCEN.lock().unwrap().as_ref() {
                msg = dfamily::describe_rendezvous_failure(sc, &msg);
            }
            let eo = EvalOut {
                violations: vec![Violation { prop: prop.clone(), class: class.into(), msg }],
                digest: 0,
                trace: rep.trace.clone(),
                steps: rep.steps,
            };
            if human {
                println!("replay ended in a {}: {}", class, eo.violations[0].msg);
                println!("REPRODUCED property={} class={} (the run cannot return; the outcome is the violation)", prop, class);
            } else {
                println!("EVAL {}", serde_json::to_string(&eo).unwrap());
            }
            let _ = std::io::stdout().flush();
            std::process::exit(if human { 1 } else { 0 });
        }));
    }
    if r.family == "D" {
        if let Ok(sc) = serde_json::from_value::<crate::plan::Scenario>(r.scenario.clone()) {
            if sc.faults.iter().any(|f| f.kind == crate::plan::FaultKind::Rendezvous) {
                *RDV_SCEN.lock().unwrap() = Some(sc);
            }
        }
    }
    let eo = eval(&r);
    if !human {
        println!("EVAL {}", serde_json::to_string(&eo).unwrap());
        return;
    }
    let hit = eo.violations.iter().find(|v| v.prop == r.property && v.class == r.class);
    println!("replay of {} (seed {}, class {}): {} steps, log digest {:016x} (recorded {:016x})", r.property, r.seed, r.class, eo.steps, eo.digest, r.digest);
    for v in &eo.violations {
        println!("  {} {}: {}", v.prop, v.class, v.msg);
    }
    match hit {
        Some(_) if eo.digest == r.digest || r.digest == 0 => {
            println!("REPRODUCED property={} class={} (identical event log)", r.property, r.class);
            std::process::exit(1);
        }
        Some(_) => {
            println!("REPRODUCED property={} class={} (event log differs from the recorded one)", r.property, r.class);
            std::process::exit(1);
        }
        None => {
            println!("NOT REPRODUCED");
            std::process::exit(0);
        }
    }
}

/// Evaluate a candidate record in a fresh process.
pub fn eval_subprocess(r: &Replay, tag: &str) -> Option<EvalOut> {
    let dir = format!("{}/build/tmp", verif_dir());
    let _ = std::fs::create_dir_all(&dir);
    let path = format!("{}/cand-{}-{}.json", dir, std::process::id(), tag);
    std::fs::write(&path, serde_json::to_string(r).unwrap()).ok()?;
    let mut exe = std::env::current_exe().ok()?;
    if r.engine == "R" {
        exe = std::path::PathBuf::from(std::env::var("VERIF_BIN_REAL").ok()?);
    }
    // the evaluation runs in its own process and gets two minutes: a replay that hangs (a real
    // block the monitor cannot resolve) must not hang the check
    let outp = format!("{}.out", path);
    let outf = std::fs::File::create(&outp).ok()?;
    let mut child = Command::new(exe).arg("eval").arg(&path).stderr(Stdio::null()).stdout(Stdio::from(outf)).spawn().ok()?;
    let t0 = Instant::now();
    let finished = loop {
        match child.try_wait() {
            Ok(Some(_)) => break true,
            Ok(None) if t0.elapsed().as_secs() >= 120 => {
                let _ = child.kill();
                let _ = child.wait();
                break false;
            }
            Ok(None) => std::thread::sleep(std::time::Duration::from_millis(5)),
            Err(_) => break false,
        }
    };
    let text = std::fs::read_to_string(&outp).unwrap_or_default();
    let _ = std::fs::remove_file(&path);
    let _ = std::fs::remove_file(&outp);
    if !finished {
        return None;
    }
    let s = text;
    for l in s.lines() {
        if let Some(j) = l.strip_prefix("EVAL ") {
            return serde_json::from_str(j).ok();
        }
    }
    None
}

// ------------------------------------------------------------------------------------------------
// cross-build comparison (C19: the plan, C05: the outcome, "with and without the parallel
// feature"): every build prints, for the same seeds, the digest of the executed layout and of
// the world after a sequential dispatch; the digests must be equal in every build.

pub fn xdigest_line(prop: &str, seed: u64) -> Option<(u64, u64, String)> {
    let sc = crate::cfamily::xscenario(prop, seed)?;
    let (canon, ld, wd) = crate::cfamily::xdigest(&sc);
    Some((ld, wd, canon))
}

pub fn cmd_xdigest(prop: &str, base: u64, count: u64) {
    crate::util::quiet_panics();
    let out = std::io::stdout();
    let mut o = out.lock();
    for i in 0..count {
        let seed = base.wrapping_add(i);
        match std::panic::catch_unwind(|| xdigest_line(prop, seed)) {
            Ok(Some((ld, wd, _))) => {
                let _ = writeln!(o, "X {} {} {}", seed, ld, wd);
            }
            Ok(None) => {
                let _ = writeln!(o, "X {} - -", seed);
            }
            Err(_) => {
                let _ = writeln!(o, "X {} panic panic", seed);
            }
        }
    }
}

fn other_builds() -> Vec<(String, String)> {
    let mut v = Vec::new();
    for (name, var) in [("no-parallel-feature", "VERIF_BIN_NOPAR"), ("real-rayon", "VERIF_BIN_REAL")] {
        if let Ok(p) = std::env::var(var) {
            if std::path::Path::new(&p).exists() {
                v.push((name.to_string(), p));
            }
        }
    }
    v
}

fn run_xdigest(bin: &str, prop: &str, base: u64, count: u64) -> BTreeMap<u64, (String, String)> {
    let mut m = BTreeMap::new();
    if let Ok(out) = Command::new(bin).args(["xdigest", prop, &base.to_string(), &count.to_string()]).stderr(Stdio::null()).output() {
        for l in String::from_utf8_lossy(&out.stdout).lines() {
            let f: Vec<&str> = l.split_whitespace().collect();
            if f.len() == 4 && f[0] == "X" {
                if let Ok(s) = f[1].parse::<u64>() {
                    m.insert(s, (f[2].to_string(), f[3].to_string()));
                }
            }
        }
    }
    m
}

/// Returns (records of differences, comparisons made, builds compared).
fn cross_build(prop: &str, base: u64, count: u64) -> (Vec<Replay>, u64, Vec<String>) {
    let mut found = Vec::new();
    let builds = other_builds();
    if builds.is_empty() {
        return (found, 0, vec![]);
    }
    let mut n = 0;
    let own: BTreeMap<u64, (String, String)> = (0..count)
        .filter_map(|i| {
            let s = base.wrapping_add(i);
            xdigest_line(prop, s).map(|(l, w, _)| (s, (l.to_string(), w.to_string())))
        })
        .collect();
    for (name, bin) in &builds {
        let other = run_xdigest(bin, prop, base, count);
        for (s, (l, w)) in &own {
            let Some((ol, ow)) = other.get(s) else { continue };
            n += 1;
            // C19 promises the same plan in every build, C05 the same result (another plan
            // with the same result is none of C05's business)
            let class = if prop == "C05" {
                if ow != w { Some("result-differs-across-builds") } else { None }
            } else if ol != l {
                Some("plan-differs-across-builds")
            } else {
                None
            };
            if let Some(class) = class {
                if found.iter().any(|r: &Replay| r.class == class) {
                    continue;
                }
                let sc = crate::cfamily::xscenario(prop, *s);
                found.push(Replay {
                    property: prop.to_string(),
                    family: "X".into(),
                    engine: "S+".to_string() + name,
                    mode: "xbuild".into(),
                    seed: *s,
                    scenario: sc.map(|x| serde_json::to_value(x).unwrap()).unwrap_or(Value::Null),
                    strategy: crate::run::StratSpec::NoPreempt,
                    run_seed: 0,
                    trace: None,
                    class: class.to_string(),
                    msg: format!("seed {}: the simulated build gives layout digest {} / result digest {}, the build '{}' gives {} / {}", s, l, w, name, ol, ow),
                    digest: 0,
                });
            }
        }
    }
    (found, n, builds.into_iter().map(|b| b.0).collect())
}

fn eval_xbuild(r: &Replay) -> EvalOut {
    let mut vs = Vec::new();
    if let Some((l, w, _)) = xdigest_line(&r.property, r.seed) {
        for (name, bin) in other_builds() {
            let o = run_xdigest(&bin, &r.property, r.seed, 1);
            if let Some((ol, ow)) = o.get(&r.seed) {
                if *ol != l.to_string() && r.property != "C05" {
                    vs.push(Violation { prop: r.property.clone(), class: "plan-differs-across-builds".into(), msg: format!("seed {}: layout digest {} here, {} in build '{}'", r.seed, l, ol, name) });
                } else if *ow != w.to_string() && r.property == "C05" {
                    vs.push(Violation { prop: r.property.clone(), class: "result-differs-across-builds".into(), msg: format!("seed {}: result digest {} here, {} in build '{}'", r.seed, w, ow, name) });
                }
            }
        }
    }
    EvalOut { violations: vs, digest: 0, trace: vec![], steps: 0 }
}

// ------------------------------------------------------------------------------------------------
// parent

enum Msg {
    Line(usize, String),
    Exit(usize, i32),
}

struct WorkerSlot {
    next_k: u64,
    done: bool,
}

#[allow(clippy::too_many_arguments)]
fn spawn_worker(exe: &std::path::Path, tx: &mpsc::Sender<Msg>, i: usize, prop: &str, tier: &str, base: u64, stride: u64, startk: u64, deadline: u64, maxk: u64) {
    let mut ch = Command::new(exe)
        .args([
            "worker",
            prop,
            tier,
            &base.to_string(),
            &stride.to_string(),
            &(i as u64).to_string(),
            &startk.to_string(),
            &deadline.to_string(),
            &maxk.to_string(),
            &i.to_string(),
        ])
        .stdout(Stdio::piped())
        .stderr(Stdio::null())
        .spawn()
        .expect("spawn worker");
    let so = ch.stdout.take().unwrap();
    let tx = tx.clone();
    CHILD_PIDS.lock().unwrap().push(ch.id() as i32);
    std::thread::spawn(move || {
        for l in BufReader::new(so).lines().map_while(Result::ok) {
            let _ = tx.send(Msg::Line(i, l));
        }
        let code = ch.wait().map(|s| s.code().unwrap_or(-1)).unwrap_or(-1);
        let _ = tx.send(Msg::Exit(i, code));
    });
}

pub fn known_findings() -> Vec<Value> {
    let p = format!("{}/known_findings.json", verif_dir());
    match std::fs::read_to_string(&p) {
        Ok(t) => serde_json::from_str::<Value>(&t).ok().and_then(|v| v.get("findings").cloned()).and_then(|v| v.as_array().cloned()).unwrap_or_default(),
        Err(_) => vec![],
    }
}

/// A violation is a listed known finding iff property and class match and the message contains
/// the finding's `match` string.
pub fn match_known(kfs: &[Value], prop: &str, class: &str, msg: &str) -> Option<String> {
    for k in kfs {
        if k.get("status").and_then(|s| s.as_str()) == Some("fixed") {
            continue; // fixed entries suppress nothing
        }
        let p = k.get("property").and_then(|s| s.as_str()).unwrap_or("");
        let c = k.get("class").and_then(|s| s.as_str()).unwrap_or("");
        let m = k.get("match").and_then(|s| s.as_str()).unwrap_or("");
        if p == prop && c == class && msg.contains(m) {
            return Some(k.get("what").and_then(|s| s.as_str()).unwrap_or("known finding").to_string());
        }
    }
    None
}

static CHILD_PIDS: std::sync::Mutex<Vec<i32>> = std::sync::Mutex::new(Vec::new());

/// Workers that are still alive after the grace period are stuck in a real (OS-level) block -
/// nothing the simulator can schedule around. End them so that nothing is left behind.
fn kill_children() {
    for pid in CHILD_PIDS.lock().unwrap().drain(..) {
        unsafe {
            libc::kill(pid, libc::SIGKILL);
        }
    }
}

/// One search phase: `jobs` worker processes of `exe`, restarted after a run that ended its
/// process (deadlock), until the deadline.
#[allow(clippy::too_many_arguments)]
fn run_phase(
    exe: &std::path::Path,
    jobs: usize,
    prop: &str,
    tier: &str,
    base: u64,
    deadline: u64,
    budget_s: u64,
    maxk: u64,
    stats: &mut Stats,
    found: &mut BTreeMap<String, Replay>,
    harness_errors: &mut Vec<String>,
    total_found: &mut u64,
) {
    let (tx, rx) = mpsc::channel::<Msg>();
    let kfs_p = known_findings();
    let mut slots: Vec<WorkerSlot> = (0..jobs).map(|_| WorkerSlot { next_k: 0, done: false }).collect();
    for i in 0..jobs {
        spawn_worker(exe, &tx, i, prop, tier, base, jobs as u64, 0, deadline, maxk);
    }
    let mut live = jobs;
    while live > 0 {
        let left = deadline.saturating_sub(now_ms()) / 1000 + 60;
        let m = match rx.recv_timeout(Duration::from_secs(left.min(budget_s + 60))) {
            Ok(m) => m,
            Err(_) => {
                harness_errors.push(format!("{} worker process(es) did not come back within 60 s of the deadline (a real, OS-level block inside the code under test?); they were killed", live));
                kill_children();
                break;
            }
        };
        match m {
            Msg::Line(i, l) => {
                if let Some(j) = l.strip_prefix("FOUND ") {
                    if let Ok(v) = serde_json::from_str::<Value>(j) {
                        let k = v["k"].as_u64().unwrap_or(0);
                        slots[i].next_k = k + 1;
                        if let Ok(r) = serde_json::from_value::<Replay>(v["replay"].clone()) {
                            *total_found += 1;
                            found.entry(class_key(&kfs_p, &r)).or_insert(r);
                        }
                    }
                } else if let Some(j) = l.strip_prefix("FATAL ") {
                    if let Ok(v) = serde_json::from_str::<Value>(j) {
                        slots[i].next_k = v["k"].as_u64().unwrap_or(0) + 1;
                    }
                } else if let Some(j) = l.strip_prefix("HARNESS ") {
                    harness_errors.push(j.to_string());
                } else if let Some(j) = l.strip_prefix("STATS ") {
                    if let Ok(s) = serde_json::from_str::<Stats>(j) {
                        stats.merge(s);
                    }
                } else if l == "DONE" {
                    slots[i].done = true;
                }
            }
            Msg::Exit(i, code) => {
                if !slots[i].done && code == 3 && now_ms() < deadline && found.len() < 4 {
                    // the run deadlocked and ended its process: carry on after that seed
                    spawn_worker(exe, &tx, i, prop, tier, base, jobs as u64, slots[i].next_k, deadline, maxk);
                } else {
                    if !slots[i].done && code != 3 {
                        harness_errors.push(format!("worker {} ended with status {} without statistics", i, code));
                    }
                    live -= 1;
                }
            }
        }
    }
    CHILD_PIDS.lock().unwrap().clear();
}

pub fn cmd_check(prop: &str, tier: &str) {
    let tier = std::env::var("VERIF_TIER").ok().filter(|t| t == "quick" || t == "thorough").unwrap_or_else(|| tier.to_string());
    let thorough = tier == "thorough";
    let seed: u64 = std::env::var("VERIF_SEED").ok().and_then(|s| s.parse().ok()).unwrap_or(DEFAULT_SEED);
    let budget_s: u64 = std::env::var("VERIF_BUDGET_S").ok().and_then(|s| s.parse().ok()).unwrap_or(if thorough { 300 } else { 20 });
    let jobs: usize = std::env::var("VERIF_JOBS").ok().and_then(|s| s.parse().ok()).unwrap_or_else(|| num_cpus().min(16));
    let maxk: u64 = std::env::var("VERIF_MAX_SEEDS").ok().and_then(|s| s.parse().ok()).unwrap_or(u64::MAX / 4);
    println!("VERIF_SEED={} property={} tier={} engine=S jobs={} budget_s={}", seed, prop, tier, jobs, budget_s);
    if family_of(prop) == "?" {
        eprintln!("no check registered for {}", prop);
        std::process::exit(2);
    }
    let t0 = Instant::now();
    let deadline = now_ms() + budget_s * 1000;
    // derive the base of the seed sequence from VERIF_SEED and the property
    let base = crate::res::mix(seed, crate::plan::fnv(prop.as_bytes()));
    let mut stats = Stats::default();
    let mut found: BTreeMap<String, Replay> = BTreeMap::new();
    let mut harness_errors: Vec<String> = Vec::new();
    let mut total_found = 0u64;
    let own = std::env::current_exe().unwrap();
    let s_unavailable = std::env::var("VERIF_S_UNAVAILABLE").is_ok();
    if !s_unavailable {
        run_phase(&own, jobs, prop, &tier, base, deadline, budget_s, maxk, &mut stats, &mut found, &mut harness_errors, &mut total_found);
    } else {
        harness_errors.push("engine S does not build against this tree (the stand-in pool lacks a part of rayon's API that the tree uses?): searched with engine R on real rayon only, which can report a violation but cannot stand in for the whole check".into());
    }
    let s_runs = stats.runs;
    // engine R: the same scenarios and oracles on real rayon (threads parked by a controller)
    let mut r_runs = 0;
    if let Some(real) = std::env::var("VERIF_BIN_REAL").ok().filter(|p| std::path::Path::new(p).exists()) {
        if matches!(prop, "C01" | "C02" | "C03" | "C04" | "C07" | "C11" | "C12" | "C14") {
            let mut rb: u64 = std::env::var("VERIF_BUDGET_R_S").ok().and_then(|s| s.parse().ok()).unwrap_or(if thorough { 120 } else { 8 });
            let mut rjobs: usize = std::env::var("VERIF_JOBS_R").ok().and_then(|s| s.parse().ok()).unwrap_or(4);
            if s_unavailable {
                // engine R gets the whole budget and more processes
                rb += budget_s;
                rjobs = rjobs.max(8);
            }
            let dl = now_ms() + rb * 1000;
            // a different part of the seed sequence than engine S explores
            run_phase(std::path::Path::new(&real), rjobs, prop, &tier, base ^ 0x52_0000_0000, dl, rb, maxk, &mut stats, &mut found, &mut harness_errors, &mut total_found);
            r_runs = stats.runs - s_runs;
            Stats::bump(&mut stats.extra, "engine_R_runs_on_real_rayon", r_runs);
            Stats::bump(&mut stats.extra, "engine_S_runs", s_runs);
        }
    }
    let _ = r_runs;
    // "with and without the `parallel` feature", "in every process and feature configuration"
    if prop == "C19" || prop == "C05" {
        let count = if thorough { 30_000 } else { 3_000 };
        let (recs, n, builds) = cross_build(prop, base ^ 0x5eed_0000, count);
        Stats::bump(&mut stats.extra, "cross_build_comparisons", n);
        for b in builds {
            Stats::bump(&mut stats.extra, &format!("cross_build_with_{}", b), 1);
        }
        stats.runs += n;
        for r in recs {
            total_found += 1;
            found.entry(r.class.clone()).or_insert(r);
        }
    }
    let search_s = t0.elapsed().as_secs_f64();
    // minimise, confirm, report
    let kfs = known_findings();
    let mut violations = 0;
    let mut kf_lines: Vec<String> = Vec::new();
    let mut vio_lines: Vec<String> = Vec::new();
    // every listed (open) finding of this property is demonstrated from its committed minimal
    // record on the current tree; the KNOWN-FINDING line is printed exactly when it reproduces
    for k in kfs.iter().filter(|k| k.get("status").and_then(|s| s.as_str()) == Some("open") && k.get("property").and_then(|s| s.as_str()) == Some(prop)) {
        let Some(rp) = k.get("replay").and_then(|s| s.as_str()) else { continue };
        let path = format!("{}/{}", verif_dir(), rp);
        let Ok(txt) = std::fs::read_to_string(&path) else {
            harness_errors.push(format!("known finding {}: replay file {} is missing", k["id"], path));
            continue;
        };
        let Ok(rec) = serde_json::from_str::<Replay>(&txt) else {
            harness_errors.push(format!("known finding {}: replay file {} does not parse", k["id"], path));
            continue;
        };
        let reproduced = eval_subprocess(&rec, "known")
            .map(|e| e.violations.iter().any(|v| match_known(std::slice::from_ref(k), &v.prop, &v.class, &v.msg).is_some()))
            .unwrap_or(false);
        Stats::bump(&mut stats.extra, if reproduced { "known_findings_demonstrated" } else { "known_findings_not_reproduced" }, 1);
        if reproduced {
            kf_lines.push(format!("KNOWN-FINDING: property={} {}", prop, k.get("what").and_then(|s| s.as_str()).unwrap_or("")));
        }
    }
    for (class, r) in found.iter() {
        if r.property != prop {
            // HARNESS records, or a record that belongs to another property's check (e.g. a
            // dispatch that never returned while C01 was being checked)
            harness_errors.push(format!("{} {}: {}", r.property, class, r.msg));
            continue;
        }
        let small = crate::shrink::minimise(r, 60.0);
        if let Some(what) = match_known(&kfs, &small.property, &small.class, &small.msg) {
            let line = format!("KNOWN-FINDING: property={} {}", small.property, what);
            if !kf_lines.contains(&line) {
                kf_lines.push(line);
            }
            // keep the minimised record next to the replays (not a violation)
            let dir = format!("{}/replays", out_dir());
            let _ = std::fs::create_dir_all(&dir);
            let _ = std::fs::write(format!("{}/known-{}-{}.json", dir, small.property, small.class), serde_json::to_string_pretty(&small).unwrap());
            continue;
        }
        let dir = format!("{}/replays", out_dir());
        let _ = std::fs::create_dir_all(&dir);
        let path = format!("{}/{}-{}-{:016x}.json", dir, small.property, small.class, small.digest);
        std::fs::write(&path, serde_json::to_string_pretty(&small).unwrap()).expect("write replay");
        // confirm in a fresh process
        let ok = eval_subprocess(&small, "confirm").map(|e| e.violations.iter().any(|v| v.prop == small.property && v.class == small.class)).unwrap_or(false);
        if ok {
            violations += 1;
            vio_lines.push(format!("VIOLATION property={} replay={}", small.property, path));
            println!("  class={} seed={} : {}", small.class, small.seed, small.msg);
        } else {
            harness_errors.push(format!("violation {} at seed {} did not reproduce from its replay file {}", small.class, small.seed, path));
        }
    }
    // Miri tier (thorough, C08 / C09 / C17): run by bin/check before this process
    if let Ok(mj) = std::env::var("VERIF_MIRI_JSON") {
        if let Ok(t) = std::fs::read_to_string(&mj) {
            if let Ok(v) = serde_json::from_str::<Value>(&t) {
                let exit = v["miri_exit"].as_i64().unwrap_or(-1);
                let problems = v["problem_lines"].as_u64().unwrap_or(0);
                Stats::bump(&mut stats.extra, "miri_seeds", v["miri_seeds"].as_u64().unwrap_or(0));
                Stats::bump(&mut stats.extra, "miri_programs_completed", v["programs_completed"].as_u64().unwrap_or(0));
                Stats::bump(&mut stats.extra, "miri_wall_s", v["wall_s"].as_u64().unwrap_or(0));
                if exit != 0 || problems > 0 {
                    if v["programs_completed"].as_u64().unwrap_or(0) == 0 && problems == 0 {
                        harness_errors.push(format!("the Miri tier did not run (exit {}), see {}", exit, v["log"]));
                    } else {
                        violations += 1;
                        vio_lines.push(format!("VIOLATION property={} replay={}", prop, v["log"].as_str().unwrap_or("")));
                        println!("  class=miri-tier : Miri reported undefined behaviour, a data race or a failed oracle (exit {}, {} problem lines)", exit, problems);
                    }
                }
            }
        }
    }
    let wall = t0.elapsed().as_secs_f64();
    crate::shrink::write_evidence(prop, &tier, seed, base, jobs, &stats, violations, total_found, search_s, wall, &harness_errors, &kf_lines);
    for l in &kf_lines {
        println!("{}", l);
    }
    for l in &vio_lines {
        println!("{}", l);
    }
    println!(
        "{}: {} scenarios, {} runs, {} scheduler steps in {:.1}s search ({:.0} runs/h); violations={} known-findings={} harness-errors={}",
        prop,
        stats.scenarios,
        stats.runs,
        stats.steps,
        search_s,
        stats.runs as f64 / search_s.max(0.001) * 3600.0,
        violations,
        kf_lines.len(),
        harness_errors.len()
    );
    if !harness_errors.is_empty() {
        for e in harness_errors.iter().take(10) {
            eprintln!("HARNESS-ERROR: {}", e);
        }
        if violations == 0 {
            std::process::exit(2);
        }
    }
    std::process::exit(if violations > 0 { 1 } else { 0 });
}
