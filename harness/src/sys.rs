//! Harness systems: self-identifying, event-emitting systems whose every step
//! is a scheduler point, plus the shared run context (event log, directives).

use std::marker::PhantomData;
use std::rc::Rc;
use std::sync::atomic::{AtomicBool, AtomicI64, AtomicU64, AtomicU8, AtomicUsize, Ordering};
use std::sync::{Arc, Mutex};

use serde::{Deserialize, Serialize};
use shred::{
    Accessor, AccessorCow, BatchController, Dispatcher, DynamicSystemData, MultiDispatchController, Read,
    ResourceId, RunNow, RunningTime, System, SystemData, World, Write,
};

use crate::plan::{FaultKind, Kind, SysInfo};
use crate::res::{mix, Core, HRes, RKey, RG, WG, R0, R1, R2, R3};

#[derive(Clone, Copy, Debug, PartialEq, Eq, Serialize, Deserialize)]
pub enum Ev {
    Enter,
    Fetched,
    RunStart,
    Release,
    Exit,
    ExitPanic,
    CtlFetched,
    CtlReleased,
    InnerBegin,
    InnerEnd,
    TlEnter,
    TlExit,
    CallBegin,
    CallEnd,
    CallPanic,
    Note,
}

#[derive(Clone, Debug, Serialize, Deserialize)]
pub struct Event {
    pub seq: u64,
    pub kind: Ev,
    pub sid: u32,
    pub inst: u64,
    pub task: u32,
    pub worker: bool,
    pub aux: u64,
}

pub const PH_NONE: u64 = 0;
pub const PH_AT_ENTER: u64 = 1;
pub const PH_FETCHING: u64 = 2;
pub const PH_IN_WINDOW: u64 = 3;
pub const PH_LEAVING: u64 = 4;
pub const PH_CALLER: u64 = 5;
pub const PH_HANDOVER: u64 = 6;

/// Instance numbers are globally unique per dispatcher instance: plain counter values for
/// top-level calls and hand-written controllers, tagged encodings for the two cases where no
/// harness code runs at the start of the inner dispatch.
pub fn inst_multi(base: u64, k: u64) -> u64 {
    (1 << 56) | (base << 16) | (k & 0xffff)
}
pub fn inst_multi_base(inst: u64) -> u64 {
    (inst >> 16) & 0xff_ffff_ffff
}
pub fn inst_container(top_inst: u64, container: usize) -> u64 {
    (2 << 56) | (top_inst << 24) | container as u64
}
pub fn inst_container_top(inst: u64) -> u64 {
    (inst >> 24) & 0xffff_ffff
}

pub fn info(sid: usize, phase: u64) -> u64 {
    (((sid as u64) + 1) << 8) | phase
}
pub fn info_sid(i: u64) -> Option<usize> {
    let s = (i >> 8) & 0xffff_ffff;
    if s == 0 { None } else { Some(s as usize - 1) }
}
pub fn info_phase(i: u64) -> u64 {
    i & 0xff
}

#[derive(Default)]
pub struct SysState {
    pub setup: AtomicU64,
    pub run: AtomicU64,
    pub dispose: AtomicU64,
    pub state: AtomicU64,
    /// for batches: instance number of the inner dispatch in progress
    pub cur_inst: AtomicU64,
    /// for inner systems of library-driven (multi) batches: enters since the batch entered
    pub occ: AtomicU64,
    pub obs: Mutex<Vec<u64>>,
    pub inner_shape: Mutex<Option<(Vec<Vec<usize>>, usize)>>,
    pub planned: AtomicU64,
    pub in_window: AtomicBool,
    pub enters: AtomicU64,
    /// typed systems: entered (accessor called) but `run` not reached yet
    pub pending_enter: AtomicBool,
}

#[derive(Clone, Debug)]
pub struct Directive {
    pub call: usize,
    pub kind: FaultKind,
    pub arg: u64,
}

pub struct Rendezvous {
    pub need: AtomicUsize,
    pub arrived: Arc<AtomicUsize>,
}

pub struct Ctx {
    pub events: Mutex<Vec<Event>>,
    pub infos: Vec<SysInfo>,
    pub resmap: Vec<RKey>,
    pub states: Vec<SysState>,
    pub top_inst: AtomicU64,
    pub next_inst: AtomicU64,
    /// 0 normal, 1 identification run (no value updates, no points)
    pub mode: AtomicU8,
    pub fine: AtomicBool,
    pub cur_call: AtomicUsize,
    pub directives: Mutex<Vec<Vec<Directive>>>,
    pub active: Arc<AtomicI64>,
    pub canary_torn: AtomicU64,
    pub borrow_panics_seen: AtomicU64,
    pub rdv: Mutex<Vec<Arc<Rendezvous>>>,
    /// sids created-by-setup bookkeeping: logical resource -> created by harness setup
    pub created: Mutex<Vec<bool>>,
    pub log_events: AtomicBool,
    /// async scenarios: number of `dispatch` operations issued so far
    pub async_dispatched: AtomicU64,
    /// the system whose `setup` is to panic next (usize::MAX: none)
    pub setup_panic_sid: AtomicUsize,
    /// a dispatch call (or the identification run) is in progress: typed systems emit `Enter`
    /// from `accessor()` only then (the builder calls `accessor()` too)
    pub dispatching: AtomicBool,
}

impl Ctx {
    pub fn new(infos: Vec<SysInfo>, resmap: Vec<RKey>) -> Arc<Ctx> {
        let n = infos.len();
        let nres = resmap.len();
        Arc::new(Ctx {
            events: Mutex::new(Vec::new()),
            states: (0..n).map(|_| SysState::default()).collect(),
            infos,
            resmap,
            top_inst: AtomicU64::new(0),
            next_inst: AtomicU64::new(1),
            mode: AtomicU8::new(0),
            fine: AtomicBool::new(false),
            cur_call: AtomicUsize::new(0),
            directives: Mutex::new((0..n).map(|_| Vec::new()).collect()),
            active: Arc::new(AtomicI64::new(0)),
            canary_torn: AtomicU64::new(0),
            borrow_panics_seen: AtomicU64::new(0),
            rdv: Mutex::new(Vec::new()),
            created: Mutex::new(vec![false; nres]),
            log_events: AtomicBool::new(true),
            async_dispatched: AtomicU64::new(0),
            setup_panic_sid: AtomicUsize::new(usize::MAX),
            dispatching: AtomicBool::new(false),
        })
    }

    pub fn identify(&self) -> bool {
        self.mode.load(Ordering::Relaxed) == 1
    }

    pub fn inst_of(&self, sid: usize) -> u64 {
        match self.infos[sid].parent {
            None => self.top_inst.load(Ordering::SeqCst),
            Some(p) if self.infos[p].container => {
                // systems of a dispatcher that runs as a thread-local system of the outer one
                inst_container(self.top_inst.load(Ordering::SeqCst), p)
            }
            Some(p) => {
                let base = self.states[p].cur_inst.load(Ordering::SeqCst);
                if self.infos[p].multi {
                    // library-driven inner dispatches: the k-th enter of this system since the
                    // batch entered belongs to the k-th inner dispatch
                    inst_multi(base, self.states[sid].occ.load(Ordering::SeqCst))
                } else {
                    base
                }
            }
        }
    }

    pub fn emit(&self, kind: Ev, sid: usize, aux: u64) {
        if !self.log_events.load(Ordering::Relaxed) {
            return;
        }
        let inst = if sid == usize::MAX { self.top_inst.load(Ordering::SeqCst) } else { self.inst_of(sid) };
        let task = detsim::current_task().unwrap_or(0) as u32;
        let worker = on_worker();
        let mut ev = self.events.lock().unwrap();
        let seq = ev.len() as u64;
        ev.push(Event { seq, kind, sid: sid as u32, inst, task, worker, aux });
    }

    pub fn point(&self, sid: usize, phase: u64) {
        // mode 1: identification run; mode 2: free run (no scheduler, e.g. cross-build digests)
        if self.mode.load(Ordering::Relaxed) != 0 {
            return;
        }
        detsim::yield_with_info(info(sid, phase));
    }

    pub fn fine_point(&self, sid: usize, phase: u64) {
        if self.fine.load(Ordering::Relaxed) {
            self.point(sid, phase);
        }
    }

    pub fn take_directive(&self, sid: usize) -> Option<Directive> {
        let call = self.cur_call.load(Ordering::SeqCst);
        let mut d = self.directives.lock().unwrap();
        let v = &mut d[sid];
        let pos = v.iter().position(|x| x.call == call)?;
        Some(v.remove(pos))
    }

    pub fn payload(&self, sid: usize, what: &str) -> String {
        format!("HPANIC sid={} call={} {}", sid, self.cur_call.load(Ordering::SeqCst), what)
    }
}

#[cfg(feature = "par")]
pub fn on_worker() -> bool {
    rayon::current_thread_index().is_some()
}
#[cfg(not(feature = "par"))]
pub fn on_worker() -> bool {
    false
}

fn hint_of(h: u8) -> RunningTime {
    match h {
        1 => RunningTime::VeryShort,
        2 => RunningTime::Short,
        3 => RunningTime::Average,
        4 => RunningTime::Long,
        _ => RunningTime::VeryLong,
    }
}

// ------------------------------------------------------------------------------------------------
// DynSys

pub struct DynAcc {
    pub sid: usize,
    pub reads: Vec<RKey>,
    pub writes: Vec<RKey>,
    pub rlog: Vec<usize>,
    pub wlog: Vec<usize>,
    pub ctx: Arc<Ctx>,
    /// setup creates nothing
    pub expect: bool,
    /// the system does not override `System::setup`: being set up is counted where the data is
    pub default_setup: bool,
}

impl Accessor for DynAcc {
    /// A default (empty) accessor exists; systems nevertheless report their own through
    /// `System::accessor()`, and that one is what setup and fetch must use.
    fn try_new() -> Option<Self> {
        Some(DynAcc { sid: usize::MAX, reads: vec![], writes: vec![], rlog: vec![], wlog: vec![], ctx: Ctx::new(vec![], vec![]), expect: false, default_setup: false })
    }
    fn reads(&self) -> Vec<ResourceId> {
        self.reads.iter().map(|k| k.rid()).collect()
    }
    fn writes(&self) -> Vec<ResourceId> {
        self.writes.iter().map(|k| k.rid()).collect()
    }
}

pub struct DynData<'a> {
    sid: usize,
    ctx: Arc<Ctx>,
    r: Vec<Box<dyn RG + 'a>>,
    w: Vec<Box<dyn WG + 'a>>,
}

impl Drop for DynData<'_> {
    fn drop(&mut self) {
        self.r.clear();
        self.w.clear();
        self.ctx.states[self.sid].in_window.store(false, Ordering::SeqCst);
        self.ctx.emit(Ev::Release, self.sid, 0);
    }
}

/// Default value the harness gives a logical resource that nobody inserted.
pub fn default_core(logical: usize) -> Core {
    Core { v: 1000 + logical as u64, ca: 0, cb: 0 }
}

pub fn setup_defaults(ctx: &Ctx, world: &mut World, logical: &[usize]) {
    for &l in logical {
        let k = ctx.resmap[l];
        if !world.has_value_raw(k.rid()) {
            (k.vt().insert)(world, k.dynid, default_core(l));
            ctx.created.lock().unwrap()[l] = true;
        }
    }
}

impl<'a> DynamicSystemData<'a> for DynData<'a> {
    type Accessor = DynAcc;

    fn setup(acc: &DynAcc, world: &mut World) {
        if acc.sid != usize::MAX && acc.default_setup {
            acc.ctx.states[acc.sid].setup.fetch_add(1, Ordering::SeqCst);
        }
        if acc.expect {
            return;
        }
        setup_defaults(&acc.ctx, world, &acc.rlog);
        setup_defaults(&acc.ctx, world, &acc.wlog);
    }

    fn fetch(acc: &DynAcc, world: &'a World) -> Self {
        let ctx = &acc.ctx;
        let sid = acc.sid;
        ctx.point(sid, PH_AT_ENTER);
        let st = &ctx.states[sid];
        st.occ.fetch_add(1, Ordering::SeqCst);
        st.enters.fetch_add(1, Ordering::SeqCst);
        ctx.active.fetch_add(1, Ordering::SeqCst);
        st.in_window.store(true, Ordering::SeqCst);
        ctx.emit(Ev::Enter, sid, 0);
        let mut d = DynData { sid, ctx: ctx.clone(), r: Vec::new(), w: Vec::new() };
        let guard = ActiveGuard(ctx.active.clone(), true);
        for k in &acc.reads {
            ctx.fine_point(sid, PH_FETCHING);
            match (k.vt().fetch_r)(world, k.dynid) {
                Some(g) => d.r.push(g),
                None => panic!("{}", ctx.payload(sid, "missing-resource")),
            }
        }
        for k in &acc.writes {
            ctx.fine_point(sid, PH_FETCHING);
            match (k.vt().fetch_w)(world, k.dynid) {
                Some(g) => d.w.push(g),
                None => panic!("{}", ctx.payload(sid, "missing-resource")),
            }
        }
        std::mem::forget(guard);
        ctx.emit(Ev::Fetched, sid, 0);
        ctx.point(sid, PH_IN_WINDOW);
        d
    }
}

/// Decrements the active counter if fetch unwinds before `run` takes over.
struct ActiveGuard(Arc<AtomicI64>, bool);
impl Drop for ActiveGuard {
    fn drop(&mut self) {
        if self.1 {
            self.0.fetch_sub(1, Ordering::SeqCst);
        }
    }
}

struct ExitGuard {
    ctx: Arc<Ctx>,
    sid: usize,
}
impl Drop for ExitGuard {
    fn drop(&mut self) {
        self.ctx.active.fetch_sub(1, Ordering::SeqCst);
        let k = if std::thread::panicking() { Ev::ExitPanic } else { Ev::Exit };
        self.ctx.emit(k, self.sid, 0);
    }
}

pub struct DynSys {
    pub acc: DynAcc,
    pub hint: u8,
}

impl DynSys {
    pub fn new(ctx: &Arc<Ctx>, sid: usize, reads: &[usize], writes: &[usize], hint: u8) -> DynSys {
        DynSys {
            acc: DynAcc {
                sid,
                reads: reads.iter().map(|&l| ctx.resmap[l]).collect(),
                writes: writes.iter().map(|&l| ctx.resmap[l]).collect(),
                rlog: reads.to_vec(),
                wlog: writes.to_vec(),
                ctx: ctx.clone(),
                expect: false,
                default_setup: false,
            },
            hint,
        }
    }
}

fn body(ctx: &Arc<Ctx>, sid: usize, r: &[Box<dyn RG + '_>], w: &mut [Box<dyn WG + '_>], world: Option<&World>) {
    let st = &ctx.states[sid];
    st.run.fetch_add(1, Ordering::SeqCst);
    let dir = ctx.take_directive(sid);
    let kind = dir.as_ref().map(|d| d.kind);
    if kind == Some(FaultKind::PanicBefore) {
        panic!("{}", ctx.payload(sid, "before"));
    }
    if ctx.identify() {
        return;
    }
    let mut acc = 0x51ed_u64;
    for g in r.iter() {
        let c = g.core();
        if c.ca != c.cb {
            ctx.canary_torn.fetch_add(1, Ordering::SeqCst);
        }
        acc = mix(acc, c.v);
    }
    for g in w.iter() {
        let c = g.core();
        if c.ca != c.cb {
            ctx.canary_torn.fetch_add(1, Ordering::SeqCst);
        }
        acc = mix(acc, c.v);
    }
    st.obs.lock().unwrap().push(acc);
    ctx.point(sid, PH_IN_WINDOW);
    if kind == Some(FaultKind::PanicMid) {
        panic!("{}", ctx.payload(sid, "mid"));
    }
    let old = st.state.load(Ordering::SeqCst);
    for (j, g) in w.iter_mut().enumerate() {
        let c = g.core_mut();
        c.ca = c.ca.wrapping_add(1);
        let nv = mix(mix(c.v, acc), ((sid as u64) << 8) | j as u64);
        // the two canary words differ while the write is in progress
        ctx.fine_point(sid, PH_IN_WINDOW);
        let c = g.core_mut();
        c.v = mix(nv, old);
        c.cb = c.ca;
    }
    st.state.store(mix(old, acc), Ordering::SeqCst);
    match kind {
        Some(FaultKind::Rendezvous) => rendezvous(ctx, dir.as_ref().unwrap().arg as usize),
        Some(FaultKind::ExtraSteps) => {
            for _ in 0..dir.as_ref().unwrap().arg {
                ctx.point(sid, PH_IN_WINDOW);
            }
        }
        Some(FaultKind::Undeclared) => {
            // client fault: touch a resource that was not declared
            if let Some(world) = world {
                let l = dir.as_ref().unwrap().arg as usize % ctx.resmap.len();
                let k = ctx.resmap[l];
                let g = (k.vt().fetch_w)(world, k.dynid);
                ctx.point(sid, PH_IN_WINDOW);
                drop(g);
            }
        }
        Some(FaultKind::PanicAfter) => panic!("{}", ctx.payload(sid, "after")),
        _ => {}
    }
    ctx.point(sid, PH_IN_WINDOW);
}

/// Wait inside `run` until every member of the rendezvous group has arrived (C11).
pub fn rendezvous(ctx: &Ctx, idx: usize) {
    let r = ctx.rdv.lock().unwrap()[idx].clone();
    r.arrived.fetch_add(1, Ordering::SeqCst);
    detsim::poke();
    let need = r.need.load(Ordering::SeqCst);
    let a = r.arrived.clone();
    detsim::block_until("rendezvous", move || a.load(Ordering::SeqCst) >= need);
}

impl<'a> System<'a> for DynSys {
    type SystemData = DynData<'a>;

    fn run(&mut self, d: DynData<'a>) {
        let ctx = self.acc.ctx.clone();
        let sid = self.acc.sid;
        let _g = ExitGuard { ctx: ctx.clone(), sid };
        let mut d = d;
        ctx.emit(Ev::RunStart, sid, 0);
        let DynData { r, w, .. } = &mut d;
        body(&ctx, sid, r, w, None);
        drop(d);
        ctx.point(sid, PH_LEAVING);
    }

    fn running_time(&self) -> RunningTime {
        hint_of(self.hint)
    }

    fn accessor<'b>(&'b self) -> AccessorCow<'a, 'b, Self> {
        AccessorCow::Ref(&self.acc)
    }

    fn setup(&mut self, world: &mut World) {
        self.acc.ctx.states[self.acc.sid].setup.fetch_add(1, Ordering::SeqCst);
        if self.acc.ctx.setup_panic_sid.compare_exchange(self.acc.sid, usize::MAX, Ordering::SeqCst, Ordering::SeqCst).is_ok() {
            panic!("{}", self.acc.ctx.payload(self.acc.sid, "setup"));
        }
        <DynData as DynamicSystemData>::setup(&self.acc, world);
    }

    fn dispose(self, _world: &mut World) {
        self.acc.ctx.states[self.acc.sid].dispose.fetch_add(1, Ordering::SeqCst);
    }
}

/// Same system, but it relies on the library's *default* `System::setup` (which must set the
/// data up through the system's own accessor).
pub struct DynSysDefaultSetup(pub DynSys);

impl<'a> System<'a> for DynSysDefaultSetup {
    type SystemData = DynData<'a>;

    fn run(&mut self, d: DynData<'a>) {
        <DynSys as System<'a>>::run(&mut self.0, d)
    }

    fn running_time(&self) -> RunningTime {
        hint_of(self.0.hint)
    }

    fn accessor<'b>(&'b self) -> AccessorCow<'a, 'b, Self> {
        AccessorCow::Ref(&self.0.acc)
    }

    fn dispose(self, _world: &mut World) {
        self.0.acc.ctx.states[self.0.acc.sid].dispose.fetch_add(1, Ordering::SeqCst);
    }
}

// ------------------------------------------------------------------------------------------------
// Thread-local system (deliberately !Send)

pub struct TlSys {
    pub ctx: Arc<Ctx>,
    pub sid: usize,
    pub reads: Vec<usize>,
    pub writes: Vec<usize>,
    pub _nosend: Rc<()>,
}

impl<'a> RunNow<'a> for TlSys {
    fn run_now(&mut self, world: &'a World) {
        let ctx = self.ctx.clone();
        let sid = self.sid;
        ctx.point(sid, PH_AT_ENTER);
        let st = &ctx.states[sid];
        st.occ.fetch_add(1, Ordering::SeqCst);
        ctx.active.fetch_add(1, Ordering::SeqCst);
        ctx.emit(Ev::TlEnter, sid, 0);
        struct G(Arc<Ctx>, usize);
        impl Drop for G {
            fn drop(&mut self) {
                self.0.active.fetch_sub(1, Ordering::SeqCst);
                self.0.emit(Ev::TlExit, self.1, std::thread::panicking() as u64);
            }
        }
        let _g = G(ctx.clone(), sid);
        let mut r: Vec<Box<dyn RG + '_>> = Vec::new();
        let mut w: Vec<Box<dyn WG + '_>> = Vec::new();
        for &l in &self.reads {
            let k = ctx.resmap[l];
            if let Some(g) = (k.vt().fetch_r)(world, k.dynid) {
                r.push(g);
            }
        }
        for &l in &self.writes {
            let k = ctx.resmap[l];
            if let Some(g) = (k.vt().fetch_w)(world, k.dynid) {
                w.push(g);
            }
        }
        body(&ctx, sid, &r, &mut w, None);
        drop(r);
        drop(w);
        ctx.point(sid, PH_LEAVING);
    }

    fn setup(&mut self, world: &mut World) {
        self.ctx.states[self.sid].setup.fetch_add(1, Ordering::SeqCst);
        setup_defaults(&self.ctx, world, &self.reads);
        setup_defaults(&self.ctx, world, &self.writes);
    }

    fn dispose(self: Box<Self>, _world: &mut World) {
        self.ctx.states[self.sid].dispose.fetch_add(1, Ordering::SeqCst);
    }
}

// ------------------------------------------------------------------------------------------------
// Batch controllers. The controller's declared data must be a static type, so a small family
// of library types (Read / Write over R0..R3) is selected by const generics.

pub trait Pick {
    type T: HRes;
}
pub struct Sel<const N: u8>;
impl Pick for Sel<0> {
    type T = R0;
}
impl Pick for Sel<1> {
    type T = R1;
}
impl Pick for Sel<2> {
    type T = R2;
}
impl Pick for Sel<3> {
    type T = R3;
}

/// What the controller does with its declared data while it holds it.
pub trait CtlTouch {
    fn touch(&mut self, ctx: &Ctx, sid: usize) -> u64;
}
impl CtlTouch for () {
    fn touch(&mut self, _: &Ctx, _: usize) -> u64 {
        0
    }
}
impl<'c, T: HRes> CtlTouch for Read<'c, T> {
    fn touch(&mut self, ctx: &Ctx, _: usize) -> u64 {
        let c = HRes::core(&**self);
        if c.ca != c.cb {
            ctx.canary_torn.fetch_add(1, Ordering::SeqCst);
        }
        c.v
    }
}
impl<'c, T: HRes> CtlTouch for Write<'c, T> {
    fn touch(&mut self, ctx: &Ctx, sid: usize) -> u64 {
        let c = HRes::core_mut(&mut **self);
        if c.ca != c.cb {
            ctx.canary_torn.fetch_add(1, Ordering::SeqCst);
        }
        let old = c.v;
        c.ca = c.ca.wrapping_add(1);
        ctx.fine_point(sid, PH_IN_WINDOW);
        let c = HRes::core_mut(&mut **self);
        c.v = mix(old, 0xC71 ^ sid as u64);
        c.cb = c.ca;
        old
    }
}
impl<X: CtlTouch> CtlTouch for Option<X> {
    fn touch(&mut self, ctx: &Ctx, sid: usize) -> u64 {
        match self {
            Some(x) => x.touch(ctx, sid),
            None => 0,
        }
    }
}
impl<A: CtlTouch, B: CtlTouch> CtlTouch for (A, B) {
    fn touch(&mut self, ctx: &Ctx, sid: usize) -> u64 {
        let a = self.0.touch(ctx, sid);
        let b = self.1.touch(ctx, sid);
        mix(a, b)
    }
}

pub trait Fam: Send + 'static {
    type D<'c>: SystemData<'c> + CtlTouch;
}
pub struct F0;
impl Fam for F0 {
    type D<'c> = ();
}
pub struct FR<const R: u8>;
impl<const R: u8> Fam for FR<R>
where
    Sel<R>: Pick,
{
    type D<'c> = Read<'c, <Sel<R> as Pick>::T>;
}
pub struct FW<const W: u8>;
impl<const W: u8> Fam for FW<W>
where
    Sel<W>: Pick,
{
    type D<'c> = Write<'c, <Sel<W> as Pick>::T>;
}
pub struct FRW<const R: u8, const W: u8>;
impl<const R: u8, const W: u8> Fam for FRW<R, W>
where
    Sel<R>: Pick,
    Sel<W>: Pick,
{
    type D<'c> = (Read<'c, <Sel<R> as Pick>::T>, Write<'c, <Sel<W> as Pick>::T>);
}

/// The optional forms (they declare the same access, and create nothing at setup).
pub struct FOR<const R: u8>;
impl<const R: u8> Fam for FOR<R>
where
    Sel<R>: Pick,
{
    type D<'c> = Option<Read<'c, <Sel<R> as Pick>::T>>;
}
pub struct FOW<const W: u8>;
impl<const W: u8> Fam for FOW<W>
where
    Sel<W>: Pick,
{
    type D<'c> = Option<Write<'c, <Sel<W> as Pick>::T>>;
}
pub struct FORW<const R: u8, const W: u8>;
impl<const R: u8, const W: u8> Fam for FORW<R, W>
where
    Sel<R>: Pick,
    Sel<W>: Pick,
{
    type D<'c> = (Option<Read<'c, <Sel<R> as Pick>::T>>, Option<Write<'c, <Sel<W> as Pick>::T>>);
}

pub trait FamVisitor {
    fn visit<F: Fam>(self);
}

/// Like `pick_fam`, with the optional forms.
pub fn pick_fam_opt<V: FamVisitor>(r: Option<u8>, w: Option<u8>, v: V) {
    macro_rules! w_arm {
        ($r:literal) => {
            match w {
                Some(0) => v.visit::<FORW<$r, 0>>(),
                Some(1) => v.visit::<FORW<$r, 1>>(),
                Some(2) => v.visit::<FORW<$r, 2>>(),
                Some(3) => v.visit::<FORW<$r, 3>>(),
                None => v.visit::<FOR<$r>>(),
                _ => unreachable!("write type out of the static family"),
            }
        };
    }
    match r {
        Some(0) => w_arm!(0),
        Some(1) => w_arm!(1),
        Some(2) => w_arm!(2),
        Some(3) => w_arm!(3),
        None => match w {
            Some(0) => v.visit::<FOW<0>>(),
            Some(1) => v.visit::<FOW<1>>(),
            Some(2) => v.visit::<FOW<2>>(),
            Some(3) => v.visit::<FOW<3>>(),
            None => v.visit::<F0>(),
            _ => unreachable!("write type out of the static family"),
        },
        _ => unreachable!("read type out of the static family"),
    }
}

/// Select the family member for (read type, write type) and hand it to the visitor.
pub fn pick_fam<V: FamVisitor>(r: Option<u8>, w: Option<u8>, v: V) {
    macro_rules! w_arm {
        ($r:literal) => {
            match w {
                Some(0) => v.visit::<FRW<$r, 0>>(),
                Some(1) => v.visit::<FRW<$r, 1>>(),
                Some(2) => v.visit::<FRW<$r, 2>>(),
                Some(3) => v.visit::<FRW<$r, 3>>(),
                None => v.visit::<FR<$r>>(),
                _ => unreachable!("write type out of the static family"),
            }
        };
    }
    match r {
        Some(0) => w_arm!(0),
        Some(1) => w_arm!(1),
        Some(2) => w_arm!(2),
        Some(3) => w_arm!(3),
        None => match w {
            Some(0) => v.visit::<FW<0>>(),
            Some(1) => v.visit::<FW<1>>(),
            Some(2) => v.visit::<FW<2>>(),
            Some(3) => v.visit::<FW<3>>(),
            None => v.visit::<F0>(),
            _ => unreachable!("write type out of the static family"),
        },
        _ => unreachable!("read type out of the static family"),
    }
}

/// A system whose data is a library type (`Read` / `Write` / pair / unit): the library does the
/// fetch. `Enter` is emitted from the overridden `System::accessor()`, the first thing
/// `run_now` calls.
pub struct TypedSys<F> {
    pub ctx: Arc<Ctx>,
    pub sid: usize,
    pub hint: u8,
    pub _m: PhantomData<fn() -> F>,
}

impl<'a, F: Fam> System<'a> for TypedSys<F> {
    type SystemData = F::D<'a>;

    fn run(&mut self, d: F::D<'a>) {
        let ctx = self.ctx.clone();
        let sid = self.sid;
        ctx.states[sid].pending_enter.store(false, Ordering::SeqCst);
        let _g = ExitGuard { ctx: ctx.clone(), sid };
        let mut d = d;
        ctx.emit(Ev::Fetched, sid, 0);
        ctx.point(sid, PH_IN_WINDOW);
        ctx.emit(Ev::RunStart, sid, 0);
        let st = &ctx.states[sid];
        st.run.fetch_add(1, Ordering::SeqCst);
        let dir = ctx.take_directive(sid);
        let kind = dir.as_ref().map(|d| d.kind);
        if kind == Some(FaultKind::PanicBefore) {
            panic!("{}", ctx.payload(sid, "before"));
        }
        if !ctx.identify() {
            let v = d.touch(&ctx, sid);
            st.obs.lock().unwrap().push(v);
            let old = st.state.load(Ordering::SeqCst);
            st.state.store(mix(old, v), Ordering::SeqCst);
            ctx.point(sid, PH_IN_WINDOW);
            match kind {
                Some(FaultKind::PanicMid) | Some(FaultKind::PanicAfter) => panic!("{}", ctx.payload(sid, "mid")),
                Some(FaultKind::Rendezvous) => rendezvous(&ctx, dir.as_ref().unwrap().arg as usize),
                _ => {}
            }
            ctx.point(sid, PH_IN_WINDOW);
        }
        drop(d);
        st.in_window.store(false, Ordering::SeqCst);
        ctx.emit(Ev::Release, sid, 0);
        ctx.point(sid, PH_LEAVING);
    }

    fn running_time(&self) -> RunningTime {
        hint_of(self.hint)
    }

    fn accessor<'b>(&'b self) -> AccessorCow<'a, 'b, Self> {
        let ctx = &self.ctx;
        // (once per run: a library that asks for the accessor twice before fetching enters once)
        if ctx.dispatching.load(Ordering::SeqCst) && !ctx.states[self.sid].pending_enter.load(Ordering::SeqCst) {
            let sid = self.sid;
            ctx.point(sid, PH_AT_ENTER);
            let st = &ctx.states[sid];
            st.occ.fetch_add(1, Ordering::SeqCst);
            st.enters.fetch_add(1, Ordering::SeqCst);
            ctx.active.fetch_add(1, Ordering::SeqCst);
            st.in_window.store(true, Ordering::SeqCst);
            st.pending_enter.store(true, Ordering::SeqCst);
            ctx.emit(Ev::Enter, sid, 0);
        }
        AccessorCow::Owned(<shred::StaticAccessor<F::D<'a>> as Accessor>::try_new().expect("static accessor"))
    }

    fn setup(&mut self, world: &mut World) {
        self.ctx.states[self.sid].setup.fetch_add(1, Ordering::SeqCst);
        <F::D<'a> as SystemData<'a>>::setup(world);
    }

    fn dispose(self, _world: &mut World) {
        self.ctx.states[self.sid].dispose.fetch_add(1, Ordering::SeqCst);
    }
}

impl Ctx {
    /// A typed system whose library fetch unwound never reached `run`: close its window.
    pub fn reap_pending(&self) {
        for (sid, st) in self.states.iter().enumerate() {
            if st.pending_enter.swap(false, Ordering::SeqCst) {
                self.active.fetch_sub(1, Ordering::SeqCst);
                st.in_window.store(false, Ordering::SeqCst);
                self.emit(Ev::ExitPanic, sid, 0);
            }
        }
    }
}

pub struct Ctl<F> {
    pub ctx: Arc<Ctx>,
    pub sid: usize,
    pub times: u8,
    pub hint: u8,
    pub _m: PhantomData<fn() -> F>,
}

struct BatchExit {
    ctx: Arc<Ctx>,
    sid: usize,
}
impl Drop for BatchExit {
    fn drop(&mut self) {
        self.ctx.active.fetch_sub(1, Ordering::SeqCst);
        self.ctx.states[self.sid].in_window.store(false, Ordering::SeqCst);
        let k = if std::thread::panicking() { Ev::ExitPanic } else { Ev::Exit };
        self.ctx.emit(k, self.sid, 0);
    }
}

fn batch_enter(ctx: &Arc<Ctx>, sid: usize) {
    ctx.point(sid, PH_AT_ENTER);
    let st = &ctx.states[sid];
    st.occ.fetch_add(1, Ordering::SeqCst);
    st.enters.fetch_add(1, Ordering::SeqCst);
    st.run.fetch_add(1, Ordering::SeqCst);
    ctx.active.fetch_add(1, Ordering::SeqCst);
    st.in_window.store(true, Ordering::SeqCst);
    // fresh instance base for the inner dispatches of this batch run
    let base = ctx.next_inst.fetch_add(1, Ordering::SeqCst);
    // reset the per-run occurrence counters of direct children
    for i in ctx.infos.iter().filter(|i| i.parent == Some(sid)) {
        ctx.states[i.sid].occ.store(0, Ordering::SeqCst);
    }
    ctx.emit(Ev::Enter, sid, 0);
    st.cur_inst.store(base, Ordering::SeqCst);
}

impl<'a, 'b, 'c, F: Fam> BatchController<'a, 'b, 'c> for Ctl<F> {
    type BatchSystemData = F::D<'c>;

    fn run(&mut self, world: &'c World, dispatcher: &mut Dispatcher<'a, 'b>) {
        let ctx = self.ctx.clone();
        let sid = self.sid;
        batch_enter(&ctx, sid);
        let _g = BatchExit { ctx: ctx.clone(), sid };
        let dir = ctx.take_directive(sid);
        let kind = dir.as_ref().map(|d| d.kind);
        if ctx.identify() {
            *ctx.states[sid].inner_shape.lock().unwrap() = Some(dispatcher.verif_shape());
            ctx.emit(Ev::InnerBegin, sid, 0);
            dispatcher.dispatch_seq(world);
            ctx.emit(Ev::InnerEnd, sid, 0);
            return;
        }
        if kind == Some(FaultKind::PanicBefore) {
            panic!("{}", ctx.payload(sid, "ctl-before"));
        }
        if kind == Some(FaultKind::Rendezvous) {
            rendezvous(&ctx, dir.as_ref().unwrap().arg as usize);
        }
        {
            let mut d: F::D<'c> = world.system_data();
            ctx.emit(Ev::CtlFetched, sid, 0);
            ctx.point(sid, PH_IN_WINDOW);
            let v = d.touch(&ctx, sid);
            ctx.states[sid].obs.lock().unwrap().push(v);
            ctx.point(sid, PH_IN_WINDOW);
            drop(d);
            ctx.emit(Ev::CtlReleased, sid, 0);
        }
        if kind == Some(FaultKind::PanicMid) {
            panic!("{}", ctx.payload(sid, "ctl-mid"));
        }
        for k in 0..self.times {
            if k > 0 {
                let inst = ctx.next_inst.fetch_add(1, Ordering::SeqCst);
                ctx.states[sid].cur_inst.store(inst, Ordering::SeqCst);
            }
            let cur = ctx.states[sid].cur_inst.load(Ordering::SeqCst);
            ctx.emit(Ev::InnerBegin, sid, cur);
            dispatcher.dispatch(world);
            ctx.emit(Ev::InnerEnd, sid, cur);
            ctx.point(sid, PH_IN_WINDOW);
        }
        ctx.states[sid].planned.fetch_add(self.times as u64, Ordering::SeqCst);
        if kind == Some(FaultKind::PanicAfter) {
            panic!("{}", ctx.payload(sid, "ctl-after"));
        }
        ctx.point(sid, PH_IN_WINDOW);
    }

    fn running_time(&self) -> RunningTime {
        hint_of(self.hint)
    }
}

/// Controller for the library's `MultiDispatcher`: only decides how many times.
pub struct PlanCtl<F> {
    pub ctx: Arc<Ctx>,
    pub sid: usize,
    pub times: u8,
    pub _m: PhantomData<fn() -> F>,
}

impl<'c, F: Fam> MultiDispatchController<'c> for PlanCtl<F> {
    type SystemData = F::D<'c>;

    fn plan(&mut self, mut data: F::D<'c>) -> usize {
        let ctx = self.ctx.clone();
        let sid = self.sid;
        // the library has already fetched `data`: the batch window starts here at the latest
        let st = &ctx.states[sid];
        st.occ.fetch_add(1, Ordering::SeqCst);
        st.enters.fetch_add(1, Ordering::SeqCst);
        st.run.fetch_add(1, Ordering::SeqCst);
        st.in_window.store(true, Ordering::SeqCst);
        let base = ctx.next_inst.fetch_add(1, Ordering::SeqCst);
        for i in ctx.infos.iter().filter(|i| i.parent == Some(sid)) {
            ctx.states[i.sid].occ.store(0, Ordering::SeqCst);
        }
        ctx.emit(Ev::Enter, sid, 1);
        st.cur_inst.store(base, Ordering::SeqCst);
        ctx.emit(Ev::CtlFetched, sid, 0);
        if !ctx.identify() {
            ctx.point(sid, PH_IN_WINDOW);
            let v = data.touch(&ctx, sid);
            st.obs.lock().unwrap().push(v);
            ctx.point(sid, PH_IN_WINDOW);
        }
        drop(data);
        ctx.emit(Ev::CtlReleased, sid, 0);
        let dir = ctx.take_directive(sid);
        if let Some(d) = dir {
            if d.kind == FaultKind::Rendezvous && !ctx.identify() {
                rendezvous(&ctx, d.arg as usize);
            }
            if matches!(d.kind, FaultKind::PanicBefore | FaultKind::PanicMid | FaultKind::PanicAfter) && !ctx.identify() {
                st.in_window.store(false, Ordering::SeqCst);
                ctx.emit(Ev::ExitPanic, sid, 0);
                panic!("{}", ctx.payload(sid, "plan"));
            }
        }
        let n = if ctx.identify() { 1 } else { self.times as usize };
        st.planned.fetch_add(n as u64, Ordering::SeqCst);
        n
    }
}

pub fn kind_of(i: &SysInfo) -> Kind {
    i.kind
}
