//! Minimisation of failing records (scenario first, then the choice trace) and
//! the evidence writer.

use std::time::Instant;

use serde_json::{json, Value};

use crate::dfamily::{Replay, Stats};
use crate::driver::{eval_subprocess, verif_dir};
use crate::plan::{count_systems, Reg, Scenario};
use crate::run::StratSpec;

fn same_class(r: &Replay, cand: &Replay, n: &mut u64) -> Option<(Vec<u32>, u64, String)> {
    *n += 1;
    let eo = eval_subprocess(cand, &format!("s{}", n))?;
    // a record that is not a listed known finding must not shrink into one (same class, another
    // cause): the smaller candidate has to stay on the unlisted side
    let kfs = crate::driver::known_findings();
    let was_known = crate::driver::match_known(&kfs, &r.property, &r.class, &r.msg).is_some();
    let v = eo
        .violations
        .iter()
        .find(|v| v.prop == r.property && v.class == r.class && crate::driver::match_known(&kfs, &v.prop, &v.class, &v.msg).is_some() == was_known)?;
    Some((eo.trace, eo.digest, v.msg.clone()))
}

/// Remove the registration with flat index `target` (depth-first over Sys/Tl/Batch); returns the
/// number of sids removed and the names that disappeared.
fn remove_reg(regs: &mut Vec<Reg>, target: usize, next: &mut usize, gone: &mut Vec<String>) -> Option<usize> {
    let mut i = 0;
    while i < regs.len() {
        let here = *next;
        match &mut regs[i] {
            Reg::Barrier => {}
            Reg::Sys { name, .. } => {
                if here == target {
                    gone.push(name.clone());
                    regs.remove(i);
                    return Some(1);
                }
                *next += 1;
            }
            Reg::Tl { .. } => {
                if here == target {
                    regs.remove(i);
                    return Some(1);
                }
                *next += 1;
            }
            Reg::TlDisp { inner } => {
                if here == target {
                    let k = 1 + count_systems(inner);
                    regs.remove(i);
                    return Some(k);
                }
                *next += 1;
                let mut g2 = Vec::new();
                if let Some(k) = remove_reg(inner, target, next, &mut g2) {
                    strip_deps(inner, &g2);
                    return Some(k);
                }
            }
            Reg::Batch { name, inner, .. } => {
                if here == target {
                    let k = 1 + count_systems(inner);
                    gone.push(name.clone());
                    regs.remove(i);
                    return Some(k);
                }
                *next += 1;
                let mut g2 = Vec::new();
                if let Some(k) = remove_reg(inner, target, next, &mut g2) {
                    // names inside a batch are only visible inside that batch
                    strip_deps(inner, &g2);
                    return Some(k);
                }
            }
        }
        i += 1;
    }
    None
}

fn strip_deps(regs: &mut [Reg], gone: &[String]) {
    for r in regs.iter_mut() {
        match r {
            Reg::Sys { deps, .. } | Reg::Batch { deps, .. } => deps.retain(|d| !gone.contains(d)),
            _ => {}
        }
    }
}

fn remap_sid(s: usize, removed_at: usize, k: usize) -> Option<usize> {
    if s < removed_at {
        Some(s)
    } else if s < removed_at + k {
        None
    } else {
        Some(s - k)
    }
}

fn scenario_candidates(sc: &Scenario, strat: &StratSpec) -> Vec<(Scenario, StratSpec)> {
    let mut out: Vec<(Scenario, StratSpec)> = Vec::new();
    // drop calls
    if sc.calls.len() > 1 {
        for i in 0..sc.calls.len() {
            let mut c = sc.clone();
            c.calls.remove(i);
            c.faults.retain(|f| f.call != i);
            for f in c.faults.iter_mut() {
                if f.call > i {
                    f.call -= 1;
                }
            }
            out.push((c, strat.clone()));
        }
    }
    // drop registrations (largest sid first keeps earlier numbering stable)
    let n = count_systems(&sc.regs);
    for t in (0..n).rev() {
        let mut c = sc.clone();
        let mut next = 0;
        let mut gone = Vec::new();
        if let Some(k) = remove_reg(&mut c.regs, t, &mut next, &mut gone) {
            strip_deps(&mut c.regs, &gone);
            let st = match strat {
                StratSpec::Hold(v) => match remap_sid(*v, t, k) {
                    Some(v2) => StratSpec::Hold(v2),
                    None => continue,
                },
                s => s.clone(),
            };
            let mut ok = true;
            let mut faults = Vec::new();
            for f in &c.faults {
                match remap_sid(f.sid, t, k) {
                    Some(s2) => {
                        let mut f2 = f.clone();
                        f2.sid = s2;
                        faults.push(f2);
                    }
                    None => {
                        ok = false;
                    }
                }
            }
            if !ok && !sc.faults.is_empty() {
                // dropping the faulted system: also try without that fault
            }
            c.faults = faults;
            out.push((c, st));
        }
    }
    // drop barriers
    fn barrier_paths(regs: &[Reg], pre: &mut Vec<usize>, out: &mut Vec<Vec<usize>>) {
        for (i, r) in regs.iter().enumerate() {
            match r {
                Reg::Barrier => {
                    let mut p = pre.clone();
                    p.push(i);
                    out.push(p);
                }
                Reg::Batch { inner, .. } => {
                    pre.push(i);
                    barrier_paths(inner, pre, out);
                    pre.pop();
                }
                _ => {}
            }
        }
    }
    let mut bp = Vec::new();
    barrier_paths(&sc.regs, &mut Vec::new(), &mut bp);
    for p in bp {
        let mut c = sc.clone();
        fn rm(regs: &mut Vec<Reg>, p: &[usize]) {
            if p.len() == 1 {
                regs.remove(p[0]);
            } else if let Reg::Batch { inner, .. } = &mut regs[p[0]] {
                rm(inner, &p[1..]);
            }
        }
        rm(&mut c.regs, &p);
        out.push((c, strat.clone()));
    }
    // simplify single registrations
    fn for_each_reg(regs: &mut [Reg], idx: &mut usize, target: usize, f: &mut dyn FnMut(&mut Reg)) -> bool {
        for r in regs.iter_mut() {
            if matches!(r, Reg::Barrier) {
                continue;
            }
            if *idx == target {
                f(r);
                return true;
            }
            *idx += 1;
            if let Reg::Batch { inner, .. } | Reg::TlDisp { inner } = r {
                if for_each_reg(inner, idx, target, f) {
                    return true;
                }
            }
        }
        false
    }
    for t in 0..n {
        for variant in 0..8 {
            let mut c = sc.clone();
            let mut changed = false;
            let mut i = 0;
            for_each_reg(&mut c.regs, &mut i, t, &mut |r| match r {
                Reg::Sys { deps, reads, writes, hint, name, expect, .. } => match variant {
                    0 if !deps.is_empty() => {
                        deps.clear();
                        changed = true;
                    }
                    1 if deps.len() > 1 => {
                        deps.pop();
                        changed = true;
                    }
                    2 if !reads.is_empty() => {
                        reads.pop();
                        changed = true;
                    }
                    3 if !writes.is_empty() => {
                        writes.pop();
                        changed = true;
                    }
                    4 if *hint != 3 => {
                        *hint = 3;
                        changed = true;
                    }
                    5 if reads.len() > 1 => {
                        reads.remove(0);
                        changed = true;
                    }
                    6 if writes.len() > 1 => {
                        writes.remove(0);
                        changed = true;
                    }
                    7 if *expect => {
                        *expect = false;
                        changed = true;
                    }
                    _ => {
                        let _ = name;
                    }
                },
                Reg::Tl { reads, writes } => match variant {
                    2 if !reads.is_empty() => {
                        reads.clear();
                        changed = true;
                    }
                    3 if !writes.is_empty() => {
                        writes.clear();
                        changed = true;
                    }
                    _ => {}
                },
                Reg::Batch { deps, ctl_read, ctl_write, times, multi, hint, .. } => match variant {
                    0 if !deps.is_empty() => {
                        deps.clear();
                        changed = true;
                    }
                    1 if ctl_read.is_some() => {
                        *ctl_read = None;
                        changed = true;
                    }
                    2 if ctl_write.is_some() => {
                        *ctl_write = None;
                        changed = true;
                    }
                    3 if *times > 1 => {
                        *times = 1;
                        changed = true;
                    }
                    4 if *multi => {
                        *multi = false;
                        changed = true;
                    }
                    5 if *hint != 5 => {
                        *hint = 5;
                        changed = true;
                    }
                    _ => {}
                },
                Reg::Barrier | Reg::TlDisp { .. } => {}
            });
            if changed {
                out.push((c, strat.clone()));
            }
        }
    }
    // faults, configuration
    for i in 0..sc.faults.len() {
        let mut c = sc.clone();
        c.faults.remove(i);
        out.push((c, strat.clone()));
    }
    for i in 0..sc.lifecycle.len() {
        let mut c = sc.clone();
        c.lifecycle.remove(i);
        out.push((c, strat.clone()));
    }
    if sc.from_pool.is_some() {
        let mut c = sc.clone();
        c.from_pool = None;
        out.push((c, strat.clone()));
    }
    if sc.fine_points {
        let mut c = sc.clone();
        c.fine_points = false;
        out.push((c, strat.clone()));
    }
    // liveness scenarios (rendezvous) are only meaningful with enough workers: never shrink the pool
    let rdv = sc.faults.iter().any(|f| f.kind == crate::plan::FaultKind::Rendezvous);
    if sc.pool.supplied.is_some() && !rdv {
        let mut c = sc.clone();
        c.pool.supplied = None;
        out.push((c, strat.clone()));
    }
    if sc.pool.machine < 16 {
        let mut c = sc.clone();
        c.pool.machine = 16;
        out.push((c, strat.clone()));
    }
    out
}

/// Shrink while the same violation class persists: scenario, then schedule.
pub fn minimise(r: &Replay, budget_s: f64) -> Replay {
    let t0 = Instant::now();
    let mut best = r.clone();
    let mut n = 0u64;
    if best.family == "D" || best.family == "C" {
        // scenario
        let mut progress = true;
        while progress && t0.elapsed().as_secs_f64() < budget_s * 0.7 {
            progress = false;
            let sc: Scenario = match serde_json::from_value(best.scenario.clone()) {
                Ok(s) => s,
                Err(_) => break,
            };
            for (c, st) in scenario_candidates(&sc, &best.strategy) {
                if t0.elapsed().as_secs_f64() > budget_s * 0.7 {
                    break;
                }
                let mut cand = best.clone();
                cand.scenario = serde_json::to_value(&c).unwrap();
                cand.strategy = st;
                cand.trace = None;
                if let Some((trace, digest, msg)) = same_class(r, &cand, &mut n) {
                    cand.trace = Some(trace);
                    cand.digest = digest;
                    cand.msg = msg;
                    best = cand;
                    progress = true;
                    break;
                }
            }
        }
    }
    // histories of operations (world / meta-table families): drop chunks of operations
    if best.family != "D" && best.family != "C" && best.scenario.get("ops").and_then(|o| o.as_array()).is_some() {
        let mut ops: Vec<Value> = best.scenario["ops"].as_array().unwrap().clone();
        let mut chunk = (ops.len() / 2).max(1);
        loop {
            let mut i = 0;
            while i < ops.len() && t0.elapsed().as_secs_f64() < budget_s {
                let mut o2 = ops.clone();
                let end = (i + chunk).min(o2.len());
                o2.drain(i..end);
                let mut cand = best.clone();
                cand.scenario["ops"] = Value::Array(o2.clone());
                if let Some((_t, digest, msg)) = same_class(r, &cand, &mut n) {
                    ops = o2;
                    best = cand;
                    best.digest = digest;
                    best.msg = msg;
                } else {
                    i += chunk;
                }
            }
            if chunk == 1 || t0.elapsed().as_secs_f64() >= budget_s {
                break;
            }
            chunk /= 2;
        }
    }
    // schedule: fewest context switches. Truncate, then zero entries in shrinking chunks.
    if let Some(tr) = best.trace.clone() {
        let mut tr = tr;
        let mut len = tr.len();
        while len > 0 && t0.elapsed().as_secs_f64() < budget_s {
            let half = len / 2;
            let mut cand = best.clone();
            let mut t2 = tr.clone();
            t2.truncate(half);
            cand.trace = Some(t2.clone());
            if let Some((_t, digest, msg)) = same_class(r, &cand, &mut n) {
                tr = t2;
                len = half;
                best.trace = Some(tr.clone());
                best.digest = digest;
                best.msg = msg;
            } else {
                break;
            }
        }
        let mut chunk = (tr.len() / 2).max(1);
        while chunk >= 1 && t0.elapsed().as_secs_f64() < budget_s {
            let mut i = 0;
            while i < tr.len() && t0.elapsed().as_secs_f64() < budget_s {
                if tr[i..(i + chunk).min(tr.len())].iter().all(|&x| x == 0) {
                    i += chunk;
                    continue;
                }
                let mut t2 = tr.clone();
                for x in t2[i..(i + chunk).min(tr.len())].iter_mut() {
                    *x = 0;
                }
                let mut cand = best.clone();
                cand.trace = Some(t2.clone());
                if let Some((_t, digest, msg)) = same_class(r, &cand, &mut n) {
                    tr = t2;
                    best.trace = Some(tr.clone());
                    best.digest = digest;
                    best.msg = msg;
                }
                i += chunk;
            }
            if chunk == 1 {
                break;
            }
            chunk /= 2;
        }
        // drop trailing zeros (missing entries mean option 0)
        while tr.last() == Some(&0) {
            tr.pop();
        }
        let mut cand = best.clone();
        cand.trace = Some(tr.clone());
        if let Some((_t, digest, msg)) = same_class(r, &cand, &mut n) {
            best.trace = Some(tr);
            best.digest = digest;
            best.msg = msg;
        }
    }
    // make sure the stored digest is the digest of exactly the stored record
    if let Some(eo) = eval_subprocess(&best, "final") {
        if let Some(v) = eo.violations.iter().find(|v| v.prop == best.property && v.class == best.class) {
            best.digest = eo.digest;
            best.msg = v.msg.clone();
            if best.trace.is_none() {
                best.trace = Some(eo.trace);
            }
        }
    }
    best
}

pub fn record_for_fatal(_prop: &str, _seed: u64, _thorough: bool, _class: &str, _f: &Value) -> Option<Replay> {
    None
}

#[allow(clippy::too_many_arguments)]
pub fn write_evidence(
    prop: &str,
    tier: &str,
    seed: u64,
    base: u64,
    jobs: usize,
    st: &Stats,
    violations: u64,
    total_found: u64,
    search_s: f64,
    wall: f64,
    harness_errors: &[String],
    kf_lines: &[String],
) {
    let (level, rule, components) = crate::props::describe(prop);
    let ev = json!({
        "property_id": prop,
        "tier": tier,
        "seed": seed,
        "level": level,
        "coverage": {
            "evaluations": st.runs.max(st.scenarios),
            "distinct_nontrivial": st.nontrivial.len(),
            "rule": rule,
            "samples": st.samples,
            "scenarios": st.scenarios,
            "simulated_runs": st.runs,
            "simulated_runs_per_hour": (st.runs as f64 / search_s.max(0.001) * 3600.0) as u64,
            "simulated_time_scheduler_steps": st.steps,
            "context_switches": st.switches,
            "tasks_created": st.tasks,
            "seed_sequence": {"base": base, "stride": jobs, "seeds_explored": st.seeds,
                               "first": st.first_seed, "note": "seed_k = base + worker + k*stride (wrapping); base = mix(VERIF_SEED, fnv(property id))"},
            "distinct_layouts": st.layouts.len(),
            "distinct_interleavings": st.inters.len(),
            "overlapping_pairs_observed": st.overlap_pairs,
            "faults_injected": st.faults,
            "strategies": st.strategies,
            "rare_branch_probes": st.probes,
            "violations_of_other_properties_seen": st.other_prop,
            "violation_class_hits": st.class_hits,
            "extra": st.extra,
            "violation_records_found": total_found,
            "components": components,
            "exhaustive": false,
        },
        "assumptions": crate::props::assumptions(prop),
        "wall_s": wall,
        "search_s": search_s,
        "violations": violations,
        "known_findings_reported": kf_lines,
        "harness_errors": harness_errors,
    });
    let dir = format!("{}/evidence", crate::driver::out_dir());
    let _ = std::fs::create_dir_all(&dir);
    let path = format!("{}/{}.json", dir, prop);
    std::fs::write(&path, serde_json::to_string_pretty(&ev).unwrap()).expect("write evidence");
}
