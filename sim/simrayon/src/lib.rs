//! simrayon - stand-in for the subset of the rayon API that shred reaches,
//! built on detsim. The only stubbed component of engine S.
//!
//! Model (see DESIGN.md 2.2): a pool has W worker slots; a job is a detsim task
//! that must hold a slot to run. `for_each` over n items = n child jobs, the
//! calling job gives up its slot while it waits and takes one back afterwards;
//! all items run even if one panics, then one stored payload (chosen through
//! `detsim::choose`) is re-raised. `join(a, b)`: b is a child job, a runs
//! inline, rayon's panic rule (a's payload wins). `install` from a worker of
//! the same pool runs inline, otherwise it is a job and the caller blocks.
//! `spawn` queues a detached job. Which job starts when, on which slot, is the
//! scheduler's choice.
//!
//! Outside a simulation (no detsim run active on the calling thread) everything
//! degrades to running inline on the caller.

use std::any::Any;
use std::cell::RefCell;
use std::panic::{catch_unwind, resume_unwind, AssertUnwindSafe};
use std::sync::atomic::{AtomicU64, AtomicUsize, Ordering};
use std::sync::{Arc, Mutex};

type Payload = Box<dyn Any + Send + 'static>;

static POOL_IDS: AtomicUsize = AtomicUsize::new(1);
static MACHINE: AtomicUsize = AtomicUsize::new(16);
static GLOBAL: Mutex<Option<Arc<PoolInner>>> = Mutex::new(None);

/// Statistics / observation points for the harness.
pub mod stats {
    use super::*;
    pub static SPAWN_STARTED: AtomicU64 = AtomicU64::new(0);
    pub static SPAWN_FINISHED: AtomicU64 = AtomicU64::new(0);
    pub static JOBS: AtomicU64 = AtomicU64::new(0);
    pub static INSTALL_INLINE: AtomicU64 = AtomicU64::new(0);
    pub static INSTALL_JOB: AtomicU64 = AtomicU64::new(0);
    pub static FOR_EACH_INLINE: AtomicU64 = AtomicU64::new(0);
    pub static FOR_EACH_PAR: AtomicU64 = AtomicU64::new(0);
    pub static MAX_BUSY: AtomicU64 = AtomicU64::new(0);
    pub static POOLS_BUILT: AtomicU64 = AtomicU64::new(0);
    pub fn reset() {
        for a in [
            &SPAWN_STARTED,
            &SPAWN_FINISHED,
            &JOBS,
            &INSTALL_INLINE,
            &INSTALL_JOB,
            &FOR_EACH_INLINE,
            &FOR_EACH_PAR,
            &MAX_BUSY,
            &POOLS_BUILT,
        ] {
            a.store(0, Ordering::SeqCst);
        }
    }
}

/// Number of workers a pool built without `num_threads` gets, and the size of
/// the implicit global pool ("machine size"; a configuration seam).
pub fn set_machine_size(n: usize) {
    MACHINE.store(n.max(1), Ordering::SeqCst);
    *GLOBAL.lock().unwrap() = None;
}

pub fn machine_size() -> usize {
    MACHINE.load(Ordering::SeqCst)
}

struct PoolInner {
    id: usize,
    n: usize,
    name: String,
    free: Mutex<Vec<bool>>,
    busy: AtomicUsize,
    /// jobs handed to the pool that have not got a worker yet
    queued: AtomicUsize,
}

impl PoolInner {
    fn new(n: usize, name: String) -> Arc<PoolInner> {
        stats::POOLS_BUILT.fetch_add(1, Ordering::Relaxed);
        Arc::new(PoolInner {
            id: POOL_IDS.fetch_add(1, Ordering::SeqCst),
            n,
            name,
            free: Mutex::new(vec![true; n]),
            busy: AtomicUsize::new(0),
            queued: AtomicUsize::new(0),
        })
    }

    fn try_take(&self) -> Option<usize> {
        let mut f = self.free.lock().unwrap();
        let i = f.iter().position(|&x| x)?;
        f[i] = false;
        let b = self.busy.fetch_add(1, Ordering::SeqCst) + 1;
        stats::MAX_BUSY.fetch_max(b as u64, Ordering::Relaxed);
        Some(i)
    }

    fn release(&self, slot: usize) {
        let mut f = self.free.lock().unwrap();
        debug_assert!(!f[slot]);
        f[slot] = true;
        self.busy.fetch_sub(1, Ordering::SeqCst);
        drop(f);
        detsim::poke();
    }
}

fn acquire(pool: &Arc<PoolInner>) -> usize {
    loop {
        if let Some(s) = pool.try_take() {
            return s;
        }
        let p = pool.clone();
        detsim::block_until("worker-slot", move || p.busy.load(Ordering::SeqCst) < p.n);
    }
}

/// Jobs are separate tasks under the scheduler - or, in pass-through mode (Miri tier), separate
/// OS threads that the outer scheduler interleaves; outside both, everything runs inline.
fn par_mode() -> bool {
    detsim::in_sim() || detsim::PASSTHROUGH.load(Ordering::Relaxed)
}

fn global_pool() -> Arc<PoolInner> {
    let mut g = GLOBAL.lock().unwrap();
    if g.is_none() {
        *g = Some(PoolInner::new(machine_size(), "global".into()));
    }
    g.as_ref().unwrap().clone()
}

thread_local! {
    /// The pool and slot the current task works for, if it is a pool job.
    static WORKER: RefCell<Option<(Arc<PoolInner>, usize)>> = const { RefCell::new(None) };
}

fn worker() -> Option<(Arc<PoolInner>, usize)> {
    WORKER.with(|w| w.borrow().clone())
}

fn set_worker(v: Option<(Arc<PoolInner>, usize)>) {
    WORKER.with(|w| *w.borrow_mut() = v);
}

/// Give up the caller's slot (if it is a worker), wait for `cond`, take a slot back.
fn wait_as_worker(desc: &'static str, cond: impl Fn() -> bool + Send + 'static) {
    let me = worker();
    if let Some((p, s)) = &me {
        p.release(*s);
    }
    detsim::block_until(desc, cond);
    if let Some((p, _)) = me {
        let s = acquire(&p);
        set_worker(Some((p, s)));
    }
}

struct SendPtr<T: ?Sized>(*mut T);
unsafe impl<T: ?Sized> Send for SendPtr<T> {}

/// Erase the lifetime of a job closure. The caller guarantees that it does not
/// return before the job has finished (it blocks on the job's latch).
unsafe fn erase<'a>(f: Box<dyn FnOnce() + Send + 'a>) -> Box<dyn FnOnce() + Send + 'static> {
    unsafe { std::mem::transmute(f) }
}

/// `body`, then `signal`. The job's captures (borrows of the caller's frame, which the caller hands
/// out again as soon as it is told that the job is done) live inside `body` only: by the time the
/// signal is given, the call that held them has returned.
fn then(body: Box<dyn FnOnce() + Send + 'static>, signal: impl FnOnce() + Send + 'static) -> Box<dyn FnOnce() + Send + 'static> {
    Box::new(move || {
        body();
        signal();
    })
}

/// Run `body` as a job of `pool`: take a slot, run, give it back.
fn job_body(pool: Arc<PoolInner>, body: impl FnOnce()) {
    stats::JOBS.fetch_add(1, Ordering::Relaxed);
    let s = acquire(&pool);
    pool.queued.fetch_sub(1, Ordering::SeqCst);
    set_worker(Some((pool.clone(), s)));
    body();
    // the slot may have changed while the job waited for children
    let (p, s) = worker().expect("worker identity lost");
    set_worker(None);
    p.release(s);
}

// ------------------------------------------------------------------------------------------------

#[derive(Debug)]
pub struct ThreadPoolBuildError;

impl std::fmt::Display for ThreadPoolBuildError {
    fn fmt(&self, f: &mut std::fmt::Formatter<'_>) -> std::fmt::Result {
        write!(f, "simrayon: cannot build pool")
    }
}
impl std::error::Error for ThreadPoolBuildError {}

#[derive(Default)]
pub struct ThreadPoolBuilder {
    n: usize,
    name: Option<Box<dyn FnMut(usize) -> String>>,
}

impl std::fmt::Debug for ThreadPoolBuilder {
    fn fmt(&self, f: &mut std::fmt::Formatter<'_>) -> std::fmt::Result {
        write!(f, "ThreadPoolBuilder({})", self.n)
    }
}

impl ThreadPoolBuilder {
    pub fn new() -> Self {
        ThreadPoolBuilder { n: 0, name: None }
    }
    pub fn num_threads(mut self, n: usize) -> Self {
        self.n = n;
        self
    }
    pub fn thread_name<F>(mut self, f: F) -> Self
    where
        F: FnMut(usize) -> String + 'static,
    {
        self.name = Some(Box::new(f));
        self
    }
    pub fn stack_size(self, _s: usize) -> Self {
        self
    }
    pub fn build(mut self) -> Result<ThreadPool, ThreadPoolBuildError> {
        let n = if self.n == 0 { machine_size() } else { self.n };
        let name = match self.name.as_mut() {
            Some(f) => f(0),
            None => String::new(),
        };
        Ok(ThreadPool { inner: PoolInner::new(n, name) })
    }
    pub fn build_global(self) -> Result<(), ThreadPoolBuildError> {
        let n = if self.n == 0 { machine_size() } else { self.n };
        *GLOBAL.lock().unwrap() = Some(PoolInner::new(n, "global".into()));
        Ok(())
    }
}

pub struct ThreadPool {
    inner: Arc<PoolInner>,
}

impl std::fmt::Debug for ThreadPool {
    fn fmt(&self, f: &mut std::fmt::Formatter<'_>) -> std::fmt::Result {
        write!(f, "ThreadPool(id={}, n={})", self.inner.id, self.inner.n)
    }
}

impl ThreadPool {
    pub fn new(_cfg: ThreadPoolBuilder) -> Result<ThreadPool, ThreadPoolBuildError> {
        _cfg.build()
    }

    pub fn current_num_threads(&self) -> usize {
        self.inner.n
    }

    /// Harness-only: identity of the pool (to tell a supplied pool from another one).
    pub fn sim_id(&self) -> usize {
        self.inner.id
    }

    /// Harness-only: name given through `thread_name` (index 0).
    pub fn sim_name(&self) -> &str {
        &self.inner.name
    }

    pub fn current_thread_index(&self) -> Option<usize> {
        match worker() {
            Some((p, s)) if p.id == self.inner.id => Some(s),
            _ => None,
        }
    }

    pub fn install<OP, R>(&self, op: OP) -> R
    where
        OP: FnOnce() -> R + Send,
        R: Send,
    {
        install_in(&self.inner, op)
    }

    pub fn join<A, B, RA, RB>(&self, a: A, b: B) -> (RA, RB)
    where
        A: FnOnce() -> RA + Send,
        B: FnOnce() -> RB + Send,
        RA: Send,
        RB: Send,
    {
        self.install(|| join(a, b))
    }

    pub fn yield_now(&self) -> Option<Yield> {
        match worker() {
            Some((p, _)) if p.id == self.inner.id => yield_now(),
            _ => None,
        }
    }

    pub fn scope<'scope, OP, R>(&self, op: OP) -> R
    where
        OP: FnOnce(&Scope<'scope>) -> R + Send,
        R: Send,
    {
        self.install(|| scope(op))
    }

    pub fn spawn<OP>(&self, op: OP)
    where
        OP: FnOnce() + Send + 'static,
    {
        stats::SPAWN_STARTED.fetch_add(1, Ordering::SeqCst);
        if !par_mode() {
            op();
            stats::SPAWN_FINISHED.fetch_add(1, Ordering::SeqCst);
            return;
        }
        let pool = self.inner.clone();
        pool.queued.fetch_add(1, Ordering::SeqCst);
        detsim::spawn(
            "spawn-job",
            Box::new(move || {
                job_body(pool, || {
                    if let Err(p) = catch_unwind(AssertUnwindSafe(op)) {
                        // real rayon aborts the process here
                        detsim::record_escaped(format!("panic in ThreadPool::spawn job: {}", describe(&p)));
                    }
                });
                stats::SPAWN_FINISHED.fetch_add(1, Ordering::SeqCst);
            }),
        );
    }
}

fn describe(p: &Payload) -> String {
    if let Some(s) = p.downcast_ref::<&'static str>() {
        s.to_string()
    } else if let Some(s) = p.downcast_ref::<String>() {
        s.clone()
    } else {
        "<payload>".into()
    }
}

fn install_in<OP, R>(pool: &Arc<PoolInner>, op: OP) -> R
where
    OP: FnOnce() -> R + Send,
    R: Send,
{
    if let Some((p, _)) = worker() {
        if p.id == pool.id {
            stats::INSTALL_INLINE.fetch_add(1, Ordering::Relaxed);
            return op();
        }
    }
    if !par_mode() {
        return op();
    }
    stats::INSTALL_JOB.fetch_add(1, Ordering::Relaxed);
    let result: Arc<Mutex<Option<std::thread::Result<R>>>> = Arc::new(Mutex::new(None));
    let done = Arc::new(AtomicUsize::new(0));
    {
        let result = SendPtr(Arc::as_ptr(&result) as *mut Mutex<Option<std::thread::Result<R>>>);
        let done = done.clone();
        let pool = pool.clone();
        pool.queued.fetch_add(1, Ordering::SeqCst);
        let body: Box<dyn FnOnce() + Send + '_> = Box::new(move || {
            let result = result;
            job_body(pool, || {
                let r = catch_unwind(AssertUnwindSafe(op));
                unsafe { *(*result.0).lock().unwrap() = Some(r) };
            });
        });
        detsim::spawn("install-job", then(unsafe { erase(body) }, move || {
            done.store(1, Ordering::SeqCst);
            detsim::poke();
        }));
    }
    let d = done.clone();
    wait_as_worker("install", move || d.load(Ordering::SeqCst) == 1);
    let r = result.lock().unwrap().take().expect("install job left no result");
    match r {
        Ok(v) => v,
        Err(p) => resume_unwind(p),
    }
}

/// `rayon::yield_now` / `yield_local`: the worker lets other work of its pool go first. Model: if a
/// job of the pool is waiting for a worker, the caller gives up its worker slot for one scheduler
/// point (the job may take it) and reports `Executed`; otherwise a scheduler point and `Idle`.
/// `None` outside a pool. (Unlike rayon the job that got the slot is not necessarily finished
/// when the call returns: callers must not rely on that, and a correct caller waits on a latch.)
#[derive(Debug, Clone, Copy, PartialEq, Eq)]
pub enum Yield {
    Executed,
    Idle,
}

pub fn yield_now() -> Option<Yield> {
    let (pool, slot) = worker()?;
    if !par_mode() {
        return Some(Yield::Idle);
    }
    if pool.queued.load(Ordering::SeqCst) > 0 {
        pool.release(slot);
        detsim::yield_point();
        let s = acquire(&pool);
        set_worker(Some((pool, s)));
        Some(Yield::Executed)
    } else {
        detsim::yield_point();
        Some(Yield::Idle)
    }
}

pub fn yield_local() -> Option<Yield> {
    yield_now()
}

pub fn current_num_threads() -> usize {
    match worker() {
        Some((p, _)) => p.n,
        None => machine_size(),
    }
}

pub fn current_thread_index() -> Option<usize> {
    worker().map(|(_, s)| s)
}

pub fn join<A, B, RA, RB>(a: A, b: B) -> (RA, RB)
where
    A: FnOnce() -> RA + Send,
    B: FnOnce() -> RB + Send,
    RA: Send,
    RB: Send,
{
    if !par_mode() {
        let ra = a();
        let rb = b();
        return (ra, rb);
    }
    let pool = match worker() {
        Some((p, _)) => p,
        None => {
            let g = global_pool();
            return install_in(&g, || join(a, b));
        }
    };
    let rb: Mutex<Option<std::thread::Result<RB>>> = Mutex::new(None);
    let done = Arc::new(AtomicUsize::new(0));
    {
        let rbp = SendPtr(&rb as *const _ as *mut Mutex<Option<std::thread::Result<RB>>>);
        let done = done.clone();
        let pool = pool.clone();
        pool.queued.fetch_add(1, Ordering::SeqCst);
        let body: Box<dyn FnOnce() + Send + '_> = Box::new(move || {
            let rbp = rbp;
            job_body(pool, || {
                let r = catch_unwind(AssertUnwindSafe(b));
                unsafe { *(*rbp.0).lock().unwrap() = Some(r) };
            });
        });
        detsim::spawn("join-b", then(unsafe { erase(body) }, move || {
            done.store(1, Ordering::SeqCst);
            detsim::poke();
        }));
    }
    let ra = catch_unwind(AssertUnwindSafe(a));
    let d = done.clone();
    wait_as_worker("join", move || d.load(Ordering::SeqCst) == 1);
    let rb = rb.lock().unwrap().take().expect("join job left no result");
    match (ra, rb) {
        (Err(p), _) => resume_unwind(p),
        (Ok(_), Err(p)) => resume_unwind(p),
        (Ok(x), Ok(y)) => (x, y),
    }
}


/// `rayon::scope`: jobs spawned on the scope are pool jobs; the call returns when the body and
/// every job (and the jobs those spawned) have finished; a panic of any of them is re-raised.
pub struct Scope<'scope> {
    pool: Option<Arc<PoolInner>>,
    left: Arc<AtomicUsize>,
    panics: Mutex<Vec<Payload>>,
    _marker: std::marker::PhantomData<Box<dyn FnOnce(&Scope<'scope>) + Send + Sync + 'scope>>,
}

impl<'scope> Scope<'scope> {
    pub fn spawn<BODY>(&self, body: BODY)
    where
        BODY: FnOnce(&Scope<'scope>) + Send + 'scope,
    {
        let pool = match &self.pool {
            None => {
                // no scheduler: run at once
                if let Err(p) = catch_unwind(AssertUnwindSafe(|| body(self))) {
                    self.panics.lock().unwrap().push(p);
                }
                return;
            }
            Some(p) => p.clone(),
        };
        self.left.fetch_add(1, Ordering::SeqCst);
        pool.queued.fetch_add(1, Ordering::SeqCst);
        let left = self.left.clone();
        let me = SendPtr(self as *const Scope<'scope> as *mut Scope<'scope>);
        let job: Box<dyn FnOnce() + Send + '_> = Box::new(move || {
            let me = me;
            let sc: &Scope<'scope> = unsafe { &*me.0 };
            job_body(pool, || {
                if let Err(p) = catch_unwind(AssertUnwindSafe(|| body(sc))) {
                    sc.panics.lock().unwrap().push(p);
                }
            });
        });
        detsim::spawn("scope-job", then(unsafe { erase(job) }, move || {
            left.fetch_sub(1, Ordering::SeqCst);
            detsim::poke();
        }));
    }
}

pub fn scope<'scope, OP, R>(op: OP) -> R
where
    OP: FnOnce(&Scope<'scope>) -> R + Send,
    R: Send,
{
    if !par_mode() {
        let sc = Scope { pool: None, left: Arc::new(AtomicUsize::new(0)), panics: Mutex::new(Vec::new()), _marker: std::marker::PhantomData };
        let r = catch_unwind(AssertUnwindSafe(|| op(&sc)));
        let mut ps = std::mem::take(&mut *sc.panics.lock().unwrap());
        return match r {
            Err(p) => resume_unwind(p),
            Ok(_) if !ps.is_empty() => resume_unwind(ps.swap_remove(0)),
            Ok(v) => v,
        };
    }
    let pool = match worker() {
        Some((p, _)) => p,
        None => {
            let g = global_pool();
            return install_in(&g, move || scope(op));
        }
    };
    let sc = Scope { pool: Some(pool), left: Arc::new(AtomicUsize::new(0)), panics: Mutex::new(Vec::new()), _marker: std::marker::PhantomData };
    let r = catch_unwind(AssertUnwindSafe(|| op(&sc)));
    let l = sc.left.clone();
    wait_as_worker("scope", move || l.load(Ordering::SeqCst) == 0);
    let mut ps = std::mem::take(&mut *sc.panics.lock().unwrap());
    match r {
        Err(p) => resume_unwind(p),
        Ok(_) if !ps.is_empty() => {
            let k = detsim::choose(0x50414e, ps.len());
            resume_unwind(ps.swap_remove(k))
        }
        Ok(v) => v,
    }
}

/// Leaves of rayon's recursive halving with a minimum length: a range is split in the middle
/// while both halves keep at least `min` items (the thread-count splitter is ignored, i.e. the
/// finest splitting rayon can reach; coarser ones are sub-cases for safety properties).
fn leaves<T>(items: Vec<T>, min: usize, max: usize) -> Vec<Vec<T>> {
    fn rec<T>(mut v: Vec<T>, min: usize, max: usize, out: &mut Vec<Vec<T>>) {
        let len = v.len();
        if len / 2 >= min.max(1) && len > 1 {
            let right = v.split_off(len / 2);
            rec(v, min, max, out);
            rec(right, min, max, out);
        } else if len > max && len > 1 {
            let right = v.split_off(len / 2);
            rec(v, min, max, out);
            rec(right, min, max, out);
        } else {
            out.push(v);
        }
    }
    let mut out = Vec::new();
    rec(items, min, max, &mut out);
    out
}

/// Run `f` on every item; leaves of the splitting are independent jobs of the current pool.
fn for_each_items<T: Send, F: Fn(T) + Sync + Send>(items: Vec<T>, min: usize, max: usize, f: F) {
    if items.is_empty() {
        return;
    }
    if min > 1 || max < items.len() {
        let chunks = leaves(items, min, max);
        return for_each_jobs(chunks, |c: Vec<T>| {
            for it in c {
                f(it);
            }
        });
    }
    for_each_jobs(items, f)
}

fn for_each_jobs<T: Send, F: Fn(T) + Sync + Send>(items: Vec<T>, f: F) {
    let n = items.len();
    if !par_mode() || n == 1 {
        stats::FOR_EACH_INLINE.fetch_add(1, Ordering::Relaxed);
        for it in items {
            f(it);
        }
        return;
    }
    let pool = match worker() {
        Some((p, _)) => p,
        None => {
            let g = global_pool();
            return install_in(&g, move || for_each_jobs(items, f));
        }
    };
    stats::FOR_EACH_PAR.fetch_add(1, Ordering::Relaxed);
    let left = Arc::new(AtomicUsize::new(n));
    let panics: Mutex<Vec<Payload>> = Mutex::new(Vec::new());
    {
        let fref = &f;
        let pref = &panics;
        for it in items {
            let left = left.clone();
            let pool = pool.clone();
            pool.queued.fetch_add(1, Ordering::SeqCst);
            let body: Box<dyn FnOnce() + Send + '_> = Box::new(move || {
                job_body(pool, || {
                    if let Err(p) = catch_unwind(AssertUnwindSafe(|| fref(it))) {
                        pref.lock().unwrap().push(p);
                    }
                });
            });
            detsim::spawn("for-each-item", then(unsafe { erase(body) }, move || {
                left.fetch_sub(1, Ordering::SeqCst);
                detsim::poke();
            }));
        }
    }
    let l = left.clone();
    wait_as_worker("for-each", move || l.load(Ordering::SeqCst) == 0);
    let mut ps = std::mem::take(&mut *panics.lock().unwrap());
    if !ps.is_empty() {
        let k = detsim::choose(0x50414e, ps.len());
        resume_unwind(ps.swap_remove(k));
    }
}

/// One pool job per item (or per leaf of the halving rule), results in item order.
fn par_map<T: Send, R: Send, F: Fn(T) -> R + Sync + Send>(items: Vec<T>, min: usize, max: usize, f: F) -> Vec<R> {
    let slots: Vec<Mutex<Option<R>>> = (0..items.len()).map(|_| Mutex::new(None)).collect();
    {
        let sref = &slots;
        for_each_items(items.into_iter().enumerate().collect(), min, max, move |(i, it): (usize, T)| {
            let r = f(it);
            *sref[i].lock().unwrap() = Some(r);
        });
    }
    slots.into_iter().map(|m| m.into_inner().unwrap().expect("par_map: an item produced no result")).collect()
}

pub mod iter {
    use super::for_each_items;

    pub trait ParallelIterator: Sized {
        type Item: Send;
        fn into_parts(self) -> (Vec<Self::Item>, usize, usize);

        fn into_items(self) -> Vec<Self::Item> {
            self.into_parts().0
        }

        fn for_each<F>(self, f: F)
        where
            F: Fn(Self::Item) + Sync + Send,
        {
            let (items, min, max) = self.into_parts();
            for_each_items(items, min, max, f)
        }

        fn enumerate(self) -> Items<(usize, Self::Item)> {
            let (items, min, max) = self.into_parts();
            Items { v: items.into_iter().enumerate().collect(), min, max }
        }

        fn with_min_len(self, min: usize) -> Items<Self::Item> {
            let (v, m0, max) = self.into_parts();
            Items { v, min: m0.max(min), max }
        }

        fn with_max_len(self, max: usize) -> Items<Self::Item> {
            let (v, min, m0) = self.into_parts();
            Items { v, min, max: m0.min(max.max(1)) }
        }

        fn count(self) -> usize {
            self.into_parts().0.len()
        }

        /// `map`, `filter_map`, `filter`, `flat_map_iter`: evaluated *eagerly* - one pool job per
        /// item (or leaf), results kept in order. Rayon fuses adaptors into the consumer's jobs;
        /// a chain `a.map(f).for_each(g)` therefore has a barrier between the f phase and the g
        /// phase here that rayon does not have (fewer interleavings, never more). Before a
        /// `collect` the two are the same.
        fn map<F, R>(self, f: F) -> Items<R>
        where
            F: Fn(Self::Item) -> R + Sync + Send,
            R: Send,
        {
            let (items, min, max) = self.into_parts();
            Items { v: super::par_map(items, min, max, f), min: 1, max: usize::MAX }
        }

        fn filter_map<F, R>(self, f: F) -> Items<R>
        where
            F: Fn(Self::Item) -> Option<R> + Sync + Send,
            R: Send,
        {
            let (items, min, max) = self.into_parts();
            Items { v: super::par_map(items, min, max, f).into_iter().flatten().collect(), min: 1, max: usize::MAX }
        }

        fn filter<F>(self, f: F) -> Items<Self::Item>
        where
            F: Fn(&Self::Item) -> bool + Sync + Send,
        {
            self.filter_map(move |x| if f(&x) { Some(x) } else { None })
        }

        fn flat_map_iter<F, U>(self, f: F) -> Items<U::Item>
        where
            F: Fn(Self::Item) -> U + Sync + Send,
            U: IntoIterator,
            U::Item: Send,
        {
            let (items, min, max) = self.into_parts();
            let parts: Vec<Vec<U::Item>> = super::par_map(items, min, max, move |x| f(x).into_iter().collect::<Vec<_>>());
            Items { v: parts.into_iter().flatten().collect(), min: 1, max: usize::MAX }
        }

        fn collect<C>(self) -> C
        where
            C: std::iter::FromIterator<Self::Item>,
        {
            self.into_parts().0.into_iter().collect()
        }
    }

    pub trait IndexedParallelIterator: ParallelIterator {}
    impl<T: ParallelIterator> IndexedParallelIterator for T {}

    pub struct Items<T> {
        pub(crate) v: Vec<T>,
        pub(crate) min: usize,
        pub(crate) max: usize,
    }

    impl<T> Items<T> {
        pub(crate) fn new(v: Vec<T>) -> Items<T> {
            Items { v, min: 1, max: usize::MAX }
        }
    }

    impl<T: Send> ParallelIterator for Items<T> {
        type Item = T;
        fn into_parts(self) -> (Vec<T>, usize, usize) {
            (self.v, self.min, self.max)
        }
    }

    pub trait IntoParallelIterator {
        type Item: Send;
        type Iter: ParallelIterator<Item = Self::Item>;
        fn into_par_iter(self) -> Self::Iter;
    }

    impl<T: Send> IntoParallelIterator for Items<T> {
        type Item = T;
        type Iter = Items<T>;
        fn into_par_iter(self) -> Items<T> {
            self
        }
    }

    impl<T: Send> IntoParallelIterator for Vec<T> {
        type Item = T;
        type Iter = Items<T>;
        fn into_par_iter(self) -> Items<T> {
            Items::new(self)
        }
    }

    impl<'a, T: Send + 'a> IntoParallelIterator for &'a mut [T] {
        type Item = &'a mut T;
        type Iter = Items<&'a mut T>;
        fn into_par_iter(self) -> Items<&'a mut T> {
            Items::new(self.iter_mut().collect())
        }
    }

    impl<'a, T: Sync + 'a> IntoParallelIterator for &'a [T] {
        type Item = &'a T;
        type Iter = Items<&'a T>;
        fn into_par_iter(self) -> Items<&'a T> {
            Items::new(self.iter().collect())
        }
    }

    impl<'a, T: Send + 'a> IntoParallelIterator for &'a mut Vec<T> {
        type Item = &'a mut T;
        type Iter = Items<&'a mut T>;
        fn into_par_iter(self) -> Items<&'a mut T> {
            Items::new(self.iter_mut().collect())
        }
    }

    impl<'a, T: Sync + 'a> IntoParallelIterator for &'a Vec<T> {
        type Item = &'a T;
        type Iter = Items<&'a T>;
        fn into_par_iter(self) -> Items<&'a T> {
            Items::new(self.iter().collect())
        }
    }

    impl IntoParallelIterator for std::ops::Range<usize> {
        type Item = usize;
        type Iter = Items<usize>;
        fn into_par_iter(self) -> Items<usize> {
            Items::new(self.collect())
        }
    }

    pub trait IntoParallelRefMutIterator<'data> {
        type Iter: ParallelIterator<Item = Self::Item>;
        type Item: Send + 'data;
        fn par_iter_mut(&'data mut self) -> Self::Iter;
    }

    impl<'data, I: 'data + ?Sized> IntoParallelRefMutIterator<'data> for I
    where
        &'data mut I: IntoParallelIterator,
    {
        type Iter = <&'data mut I as IntoParallelIterator>::Iter;
        type Item = <&'data mut I as IntoParallelIterator>::Item;
        fn par_iter_mut(&'data mut self) -> Self::Iter {
            self.into_par_iter()
        }
    }

    pub trait IntoParallelRefIterator<'data> {
        type Iter: ParallelIterator<Item = Self::Item>;
        type Item: Send + 'data;
        fn par_iter(&'data self) -> Self::Iter;
    }

    impl<'data, I: 'data + ?Sized> IntoParallelRefIterator<'data> for I
    where
        &'data I: IntoParallelIterator,
    {
        type Iter = <&'data I as IntoParallelIterator>::Iter;
        type Item = <&'data I as IntoParallelIterator>::Item;
        fn par_iter(&'data self) -> Self::Iter {
            self.into_par_iter()
        }
    }
}

pub mod slice {
    use crate::iter::Items;

    pub trait ParallelSliceMut<T: Send> {
        fn as_parallel_slice_mut(&mut self) -> &mut [T];

        fn par_chunks_mut(&mut self, n: usize) -> Items<&mut [T]> {
            assert!(n != 0, "chunk_size must not be zero");
            Items::new(self.as_parallel_slice_mut().chunks_mut(n).collect())
        }

        fn par_chunks_exact_mut(&mut self, n: usize) -> Items<&mut [T]> {
            assert!(n != 0, "chunk_size must not be zero");
            Items::new(self.as_parallel_slice_mut().chunks_exact_mut(n).collect())
        }
    }

    impl<T: Send> ParallelSliceMut<T> for [T] {
        fn as_parallel_slice_mut(&mut self) -> &mut [T] {
            self
        }
    }

    pub trait ParallelSlice<T: Sync> {
        fn as_parallel_slice(&self) -> &[T];

        fn par_chunks(&self, n: usize) -> Items<&[T]> {
            assert!(n != 0, "chunk_size must not be zero");
            Items::new(self.as_parallel_slice().chunks(n).collect())
        }

        fn par_chunks_exact(&self, n: usize) -> Items<&[T]> {
            assert!(n != 0, "chunk_size must not be zero");
            Items::new(self.as_parallel_slice().chunks_exact(n).collect())
        }
    }

    impl<T: Sync> ParallelSlice<T> for [T] {
        fn as_parallel_slice(&self) -> &[T] {
            self
        }
    }
}

pub mod prelude {
    pub use crate::iter::{
        IndexedParallelIterator, IntoParallelIterator, IntoParallelRefIterator,
        IntoParallelRefMutIterator, ParallelIterator,
    };
    pub use crate::slice::{ParallelSlice, ParallelSliceMut};
}
