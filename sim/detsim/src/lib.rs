//! detsim - a deterministic scheduler for real OS threads.
//!
//! A *task* is an OS thread that may only execute while it holds the *baton*.
//! Exactly one task holds it. Every scheduler point (yield, spawn+block, task
//! end, `choose`) hands the baton to the task picked by the strategy (or by the
//! replayed choice trace). Everybody else sleeps on its own wake-up slot.
//!
//! One integer (the seed) decides everything: the strategy draws from a PRNG
//! seeded from it and every decision with more than one option is appended to
//! the choice trace. Replaying the trace reproduces the execution exactly; a
//! missing or out-of-range entry means option 0 ("keep running the current task
//! if it is runnable, otherwise the runnable task with the lowest id"), which
//! is what makes traces shrinkable.
//!
//! No timeouts: "no runnable task and not everything finished" is a deadlock
//! and is reported exactly (the registered fatal handler is called, which
//! normally prints a record and ends the process, because parked OS threads
//! inside foreign frames cannot be unwound).
//!
//! Pass-through mode (`PASSTHROUGH`): tasks are plain threads, scheduler points
//! are `thread::yield_now`, blocking conditions are polled. Used under Miri,
//! whose own seeded scheduler then decides the interleaving.

use std::any::Any;
use std::cell::RefCell;
use std::panic::{catch_unwind, AssertUnwindSafe};
use std::sync::atomic::{AtomicBool, AtomicU64, AtomicUsize, Ordering};
use std::sync::{Arc, Condvar, Mutex};

pub mod ext;
pub mod rng;
pub use rng::Rng;

/// System index carried in a task tag (`(sid + 1) << 8 | phase`), 0 when there is none.
pub fn tag_sid(info: u64) -> usize {
    ((info >> 8) & 0xffff_ffff) as usize
}

pub type TaskId = usize;

/// What a strategy sees of a runnable task.
#[derive(Clone, Debug)]
pub struct TaskView {
    pub id: TaskId,
    /// Free-form tag set by the task itself (`set_info`), e.g. (system, phase).
    pub info: u64,
    /// This is the task that is making the decision and it could keep running.
    pub is_current: bool,
    /// The task was blocked and its condition has become true.
    pub was_blocked: bool,
}

pub trait Strategy: Send {
    /// Pick an index into `opts` (never empty, len >= 2 when called).
    fn pick(&mut self, step: u64, opts: &[TaskView], rng: &mut Rng) -> usize;
    /// Data choice (`choose(n)`); default uniform.
    fn pick_data(&mut self, _tag: u32, n: usize, rng: &mut Rng) -> usize {
        rng.below(n as u64) as usize
    }
}

/// Always option 0: run the current task until it blocks, then lowest id.
pub struct NoPreempt;
impl Strategy for NoPreempt {
    fn pick(&mut self, _s: u64, _o: &[TaskView], _r: &mut Rng) -> usize {
        0
    }
    fn pick_data(&mut self, _t: u32, _n: usize, _r: &mut Rng) -> usize {
        0
    }
}

pub struct Config {
    pub seed: u64,
    pub strategy: Box<dyn Strategy>,
    /// Replay this trace instead of asking the strategy.
    pub replay: Option<Vec<u32>>,
    pub max_steps: u64,
}

#[derive(Clone, Debug, PartialEq, Eq)]
pub enum Outcome {
    Done,
    Deadlock(Vec<(TaskId, String)>),
    StepLimit,
}

#[derive(Clone, Debug)]
pub struct Report {
    pub outcome: Outcome,
    pub trace: Vec<u32>,
    pub steps: u64,
    pub switches: u64,
    pub tasks: usize,
    pub escaped_panics: Vec<String>,
    pub max_live: usize,
}

type Cond = Box<dyn Fn() -> bool + Send>;

enum Status {
    Ready,
    Running,
    Blocked(&'static str, Cond),
    /// Executing a real blocking call without the baton. Runnable once `cond`
    /// holds (then the scheduler waits for the physical return).
    Detached { desc: &'static str, cond: Cond, returned: bool },
    Done,
}

struct Slot {
    go: Mutex<bool>,
    cv: Condvar,
}

impl Slot {
    fn new() -> Arc<Slot> {
        Arc::new(Slot { go: Mutex::new(false), cv: Condvar::new() })
    }
    fn wake(&self) {
        let mut g = self.go.lock().unwrap();
        *g = true;
        self.cv.notify_one();
    }
    fn wait(&self) {
        let mut g = self.go.lock().unwrap();
        while !*g {
            g = self.cv.wait(g).unwrap();
        }
        *g = false;
    }
}

struct TaskRec {
    status: Status,
    info: u64,
    slot: Arc<Slot>,
    name: &'static str,
    /// OS thread id (0 = unknown), for the monitor
    tid: u64,
    /// detached, back from its real call, and seen to be back at a sampling step
    ret_seen: bool,
    /// /proc/self/task/<tid>/stat, kept open while the task lives
    stat: Option<std::fs::File>,
}

struct State {
    tasks: Vec<TaskRec>,
    live: Vec<TaskId>,
    current: TaskId,
    trace: Vec<u32>,
    replay: Option<Vec<u32>>,
    replay_pos: usize,
    rng: Rng,
    strategy: Box<dyn Strategy>,
    steps: u64,
    switches: u64,
    max_steps: u64,
    escaped: Vec<String>,
    finished: bool,
    max_live: usize,
    step_limit_hit: bool,
    /// nobody holds the baton: the only live task is executing a detached call
    baton_free: bool,
    free_gen: u64,
    /// identity of this run for the monitor
    sim_gen: u64,
    /// tasks detached by the monitor (blocked in the OS without saying so) and not back yet
    implicit_out: u32,
}

pub struct Sim {
    st: Mutex<State>,
    fin: Condvar,
}

thread_local! {
    static CUR: RefCell<Option<(Arc<Sim>, TaskId)>> = const { RefCell::new(None) };
    static AT_RETURN: RefCell<Option<Box<dyn FnOnce()>>> = const { RefCell::new(None) };
}

/// Pass-through mode (Miri): no baton, plain threads.
pub static PASSTHROUGH: AtomicBool = AtomicBool::new(false);
static GLOBAL_STEP: AtomicU64 = AtomicU64::new(0);

type FatalFn = Box<dyn Fn(&Report) + Send + Sync>;
static FATAL: Mutex<Option<FatalFn>> = Mutex::new(None);

/// Handler called (on the deciding thread) when a run deadlocks or exceeds its
/// step budget. It should not return (print a record, `process::exit`).
pub fn set_fatal_handler(f: FatalFn) {
    *FATAL.lock().unwrap() = Some(f);
}

fn cur() -> Option<(Arc<Sim>, TaskId)> {
    CUR.with(|c| c.borrow().clone())
}

pub fn in_sim() -> bool {
    ext::ACTIVE.load(Ordering::Relaxed) || CUR.with(|c| c.borrow().is_some())
}

pub fn current_task() -> Option<TaskId> {
    if ext::ACTIVE.load(Ordering::Relaxed) {
        return Some(ext::current_task());
    }
    CUR.with(|c| c.borrow().as_ref().map(|x| x.1))
}

/// The scheduler's step counter ("simulated time"). Monotonic over a run.
pub fn now() -> u64 {
    if ext::ACTIVE.load(Ordering::Relaxed) {
        return ext::steps();
    }
    match cur() {
        Some((sim, _)) => sim.st.lock().unwrap().steps,
        None => GLOBAL_STEP.load(Ordering::Relaxed),
    }
}

// ------------------------------------------------------------------------------------------------
// OS thread cache: a parked thread per finished task is reused by the next task.

struct Worker {
    job: Mutex<Option<Box<dyn FnOnce() + Send>>>,
    cv: Condvar,
}

static IDLE: Mutex<Vec<Arc<Worker>>> = Mutex::new(Vec::new());
static THREADS_CREATED: AtomicUsize = AtomicUsize::new(0);

pub fn os_threads_created() -> usize {
    THREADS_CREATED.load(Ordering::Relaxed)
}

fn os_spawn(job: Box<dyn FnOnce() + Send>) {
    if cfg!(miri) || PASSTHROUGH.load(Ordering::Relaxed) {
        std::thread::spawn(job);
        return;
    }
    let w = IDLE.lock().unwrap().pop();
    match w {
        Some(w) => {
            *w.job.lock().unwrap() = Some(job);
            w.cv.notify_one();
        }
        None => {
            THREADS_CREATED.fetch_add(1, Ordering::Relaxed);
            let w = Arc::new(Worker { job: Mutex::new(Some(job)), cv: Condvar::new() });
            std::thread::Builder::new()
                .stack_size(1 << 20)
                .spawn(move || loop {
                    let job = {
                        let mut g = w.job.lock().unwrap();
                        loop {
                            if let Some(j) = g.take() {
                                break j;
                            }
                            g = w.cv.wait(g).unwrap();
                        }
                    };
                    job();
                    IDLE.lock().unwrap().push(w.clone());
                })
                .expect("thread spawn");
        }
    }
}

// ------------------------------------------------------------------------------------------------

pub(crate) fn payload_str(p: &(dyn Any + Send)) -> String {
    if let Some(s) = p.downcast_ref::<&'static str>() {
        s.to_string()
    } else if let Some(s) = p.downcast_ref::<String>() {
        s.clone()
    } else {
        "<non-string payload>".to_string()
    }
}

impl Sim {
    /// Called by the task that holds the baton, after it has set its own status
    /// (Ready / Blocked / Detached / Done) in `st`. Picks the next task, hands
    /// the baton over and (unless `no_wait`) sleeps until this task is chosen
    /// again.
    fn switch<'a>(self: &'a Arc<Sim>, me: TaskId, mut st: std::sync::MutexGuard<'a, State>, no_wait: bool) {
        st.steps += 1;
        if st.steps > st.max_steps && !st.step_limit_hit {
            st.step_limit_hit = true;
            let rep = make_report(&st, Outcome::StepLimit);
            drop(st);
            fatal(&rep);
            return;
        }
        let mut waited = 0u32;
        let mut settle = 0u32;
        let mut forced = false;
        // Detached tasks are looked at (through /proc) at every fourth decision only, and a call
        // that has come back although its wake condition does not hold is taken notice of at
        // those decisions only: which decision sees it then does not depend on thread speed.
        let mut sample = !cfg!(miri) && st.steps % 4 == 0;
        let next = loop {
            if sample {
                // A detached task (announced, or detached by the monitor) whose thread is not
                // asleep in the kernel is on its way into or out of its real call: let it settle
                // (block, or come back and re-attach) before deciding.
                let mut unsettled = false;
                for i in 0..st.live.len() {
                    let t = st.live[i];
                    if t == me || st.tasks[t].tid == 0 || !matches!(st.tasks[t].status, Status::Detached { returned: false, .. }) {
                        continue;
                    }
                    if !task_asleep(&mut st.tasks[t]) {
                        unsettled = true;
                    }
                }
                if unsettled && settle < 4000 {
                    drop(st);
                    if settle < 8 {
                        std::thread::yield_now();
                    } else {
                        std::thread::sleep(std::time::Duration::from_micros(25));
                    }
                    settle += 1;
                    st = self.st.lock().unwrap();
                    continue;
                }
                for i in 0..st.live.len() {
                    let t = st.live[i];
                    let back = matches!(st.tasks[t].status, Status::Detached { returned: true, .. });
                    st.tasks[t].ret_seen = back;
                }
                sample = false;
            }
            // options: current first (if runnable), then the others by id
            let mut opts: Vec<TaskView> = Vec::with_capacity(st.live.len());
            let mut me_view: Option<TaskView> = None;
            for &t in st.live.iter() {
                let rec = &st.tasks[t];
                let (ok, wb) = match &rec.status {
                    Status::Ready => (true, false),
                    Status::Running => (false, false),
                    Status::Blocked(_, c) => (c(), true),
                    // a call that has come back is runnable whatever the model of it says
                    Status::Detached { cond, .. } => (rec.ret_seen || cond(), true),
                    Status::Done => (false, false),
                };
                if ok {
                    let v = TaskView { id: t, info: rec.info, is_current: t == me, was_blocked: wb };
                    if t == me {
                        me_view = Some(v);
                    } else {
                        opts.push(v);
                    }
                }
            }
            if let Some(v) = me_view {
                opts.insert(0, v);
            }
            if opts.is_empty() && !forced && !cfg!(miri) {
                // nothing can run as far as this decision knows: look again, properly
                forced = true;
                sample = true;
                continue;
            }
            if opts.is_empty() {
                // A detached task that has physically returned although its wake
                // condition does not hold (early return of the real call): let it run,
                // the oracle of the caller judges it.
                let early = st.live.iter().copied().find(|&t| {
                    matches!(st.tasks[t].status, Status::Detached { returned: true, .. })
                });
                if let Some(t) = early {
                    break Some(t);
                }
                // The deciding task has just detached itself and nothing else can run: it must go
                // and make its call (waiting here would be waiting for itself). The baton stays
                // free; the task takes it back when it re-attaches.
                if matches!(st.tasks[me].status, Status::Detached { returned: false, .. }) {
                    st.baton_free = true;
                    st.free_gen += 1;
                    let gen = st.free_gen;
                    let sim = self.clone();
                    drop(st);
                    // Nobody holds the baton while the call is under way. If it does not come
                    // back (same grace as below), nothing can ever run again: a deadlock, which
                    // a monitor has to declare because every task is asleep.
                    std::thread::spawn(move || {
                        for _ in 0..40 {
                            std::thread::sleep(std::time::Duration::from_millis(1));
                            let st = sim.st.lock().unwrap();
                            if !st.baton_free || st.free_gen != gen {
                                return;
                            }
                        }
                        let st = sim.st.lock().unwrap();
                        if !st.baton_free || st.free_gen != gen {
                            return;
                        }
                        let rep = make_report(&st, Outcome::Deadlock(describe_live(&st)));
                        drop(st);
                        fatal(&rep);
                    });
                    return;
                }
                let any_detached = st
                    .live
                    .iter()
                    .any(|&t| matches!(st.tasks[t].status, Status::Detached { .. }));
                if any_detached && waited < 40 {
                    // give the real call time to come back (only reached when nothing
                    // else can move; never on a path where the condition model is right)
                    drop(st);
                    std::thread::sleep(std::time::Duration::from_millis(1));
                    waited += 1;
                    st = self.st.lock().unwrap();
                    continue;
                }
                break None;
            }
            let idx = if opts.len() == 1 {
                0
            } else {
                let i = if let Some(rp) = st.replay.as_ref() {
                    let v = rp.get(st.replay_pos).copied().unwrap_or(0) as usize;
                    st.replay_pos += 1;
                    if v < opts.len() { v } else { 0 }
                } else {
                    let step = st.steps;
                    let State { strategy, rng, .. } = &mut *st;
                    let v = strategy.pick(step, &opts, rng);
                    if v < opts.len() { v } else { 0 }
                };
                st.trace.push(i as u32);
                i
            };
            break Some(opts[idx].id);
        };
        let next = match next {
            Some(n) => n,
            None => {
                let all_done = st.live.is_empty();
                if all_done {
                    st.finished = true;
                    self.fin.notify_all();
                    return;
                }
                let blocked = describe_live(&st);
                let rep = make_report(&st, Outcome::Deadlock(blocked));
                drop(st);
                fatal(&rep);
                return;
            }
        };
        if next == me {
            st.tasks[me].status = Status::Running;
            return;
        }
        st.switches += 1;
        st.current = next;
        let slot = st.tasks[next].slot.clone();
        let was_detached = matches!(st.tasks[next].status, Status::Detached { .. });
        if !was_detached {
            st.tasks[next].status = Status::Running;
        } else {
            // keep Detached until it physically re-attaches, but mark it as chosen
            if let Status::Detached { desc, .. } = &st.tasks[next].status {
                let d = *desc;
                st.tasks[next].status = Status::Detached { desc: d, cond: Box::new(|| true), returned: true };
            }
            st.tasks[next].info |= CHOSEN_BIT;
        }
        let myslot = st.tasks[me].slot.clone();
        drop(st);
        slot.wake();
        if !no_wait {
            myslot.wait();
        }
    }
}

const CHOSEN_BIT: u64 = 1 << 63;

fn make_report(st: &State, outcome: Outcome) -> Report {
    Report {
        outcome,
        trace: st.trace.clone(),
        steps: st.steps,
        switches: st.switches,
        tasks: st.tasks.len(),
        escaped_panics: st.escaped.clone(),
        max_live: st.max_live,
    }
}

pub(crate) fn fatal(rep: &Report) {
    let g = FATAL.lock().unwrap();
    if let Some(f) = g.as_ref() {
        f(rep);
    }
    eprintln!("detsim: fatal outcome without handler: {:?}", rep.outcome);
    std::process::exit(4);
}


// ------------------------------------------------------------------------------------------------
// Monitor: a baton holder that blocks in the kernel without announcing it (`detached`) would
// freeze the simulation. The monitor notices (no scheduler step, the holder asleep in the kernel
// on four samples 25 ms apart), treats the holder as detached and lets the others go on. On a
// tree whose only real blocking calls are the announced ones this never happens.

const IMPLICIT_DESC: &str = "unannounced OS-level block";
static SIM_GEN: AtomicU64 = AtomicU64::new(0);
static IMPLICIT: AtomicU64 = AtomicU64::new(0);
static STUCK_CALLS: AtomicU64 = AtomicU64::new(0);

/// How often an announced call did not come back although its wake condition held.
pub fn stuck_calls() -> u64 {
    STUCK_CALLS.load(Ordering::Relaxed)
}
static WATCHED: Mutex<Option<Arc<Sim>>> = Mutex::new(None);
static MONITOR: std::sync::Once = std::sync::Once::new();

/// How often a blocked baton holder had to be detached by the monitor (whole process).
pub fn implicit_detaches() -> u64 {
    IMPLICIT.load(Ordering::Relaxed)
}

thread_local! {
    static MY_TID: std::cell::Cell<u64> = const { std::cell::Cell::new(0) };
}

fn my_tid() -> u64 {
    if cfg!(miri) {
        return 0;
    }
    MY_TID.with(|t| {
        if t.get() == 0 {
            let v = std::fs::read_link("/proc/thread-self")
                .ok()
                .and_then(|p| p.file_name().and_then(|f| f.to_str()).and_then(|f| f.parse::<u64>().ok()))
                .unwrap_or(0);
            t.set(v);
        }
        t.get()
    })
}

/// The same through a file that stays open (one `pread` per look).
fn task_asleep(rec: &mut TaskRec) -> bool {
    use std::os::unix::fs::FileExt;
    if rec.stat.is_none() {
        rec.stat = std::fs::File::open(format!("/proc/self/task/{}/stat", rec.tid)).ok();
    }
    let Some(f) = rec.stat.as_ref() else { return false };
    let mut buf = [0u8; 96];
    let Ok(n) = f.read_at(&mut buf, 0) else { return false };
    // "<tid> (<comm>) <state> ...": comm is at most 15 bytes
    match buf[..n].iter().rposition(|&b| b == b')') {
        Some(i) if i + 2 < n => buf[i + 2] == b'S',
        _ => false,
    }
}

/// State 'S' (interruptible sleep) in /proc/self/task/<tid>/stat.
fn thread_asleep(tid: u64) -> bool {
    let Ok(t) = std::fs::read_to_string(format!("/proc/self/task/{}/stat", tid)) else { return false };
    match t.rfind(')') {
        Some(i) => t[i + 1..].trim_start().starts_with('S'),
        None => false,
    }
}

fn start_monitor() {
    MONITOR.call_once(|| {
        let _ = std::thread::Builder::new().name("detsim-monitor".into()).spawn(|| {
            let mut last: (u64, u64, TaskId) = (0, 0, 0);
            let mut stalls = 0u32;
            loop {
                std::thread::sleep(std::time::Duration::from_millis(25));
                let Some(sim) = WATCHED.lock().unwrap().clone() else {
                    stalls = 0;
                    continue;
                };
                let mut st = sim.st.lock().unwrap();
                let cur = st.current;
                let key = (st.sim_gen, st.steps, cur);
                // the baton holder is running - or it is a detached task that was chosen because
                // its wake condition holds and everybody waits for its real call to come back
                let holds = !st.finished && !st.baton_free && cur < st.tasks.len() && st.tasks[cur].tid != 0;
                let running = holds && matches!(st.tasks[cur].status, Status::Running);
                let chosen = holds && matches!(st.tasks[cur].status, Status::Detached { .. }) && st.tasks[cur].info & CHOSEN_BIT != 0;
                if !(running || chosen) || key != last {
                    last = key;
                    stalls = 0;
                    continue;
                }
                if !thread_asleep(st.tasks[cur].tid) {
                    stalls = 0;
                    continue;
                }
                stalls += 1;
                if stalls < 4 {
                    continue;
                }
                stalls = 0;
                if chosen {
                    // the model said the call can return, the call does not: take the choice back
                    // (the task stays detached, with no wake condition: it counts again when it
                    // really comes back) and let the others go on - or find that nobody can
                    let desc = match &st.tasks[cur].status {
                        Status::Detached { desc, .. } => *desc,
                        _ => IMPLICIT_DESC,
                    };
                    st.tasks[cur].status = Status::Detached { desc, cond: Box::new(|| false), returned: false };
                    st.tasks[cur].info &= !CHOSEN_BIT;
                    st.tasks[cur].ret_seen = false;
                    *st.tasks[cur].slot.go.lock().unwrap() = false;
                    STUCK_CALLS.fetch_add(1, Ordering::Relaxed);
                    sim.switch(cur, st, true);
                    continue;
                }
                st.tasks[cur].status = Status::Detached { desc: IMPLICIT_DESC, cond: Box::new(|| false), returned: false };
                st.tasks[cur].ret_seen = false;
                st.implicit_out += 1;
                IMPLICIT.fetch_add(1, Ordering::Relaxed);
                sim.switch(cur, st, true);
            }
        });
    });
}

fn describe_live(st: &State) -> Vec<(TaskId, String)> {
    st.live
        .iter()
        .map(|&t| {
            let d = match &st.tasks[t].status {
                Status::Blocked(d, _) => format!("{}:blocked:{}", st.tasks[t].name, d),
                Status::Detached { desc, .. } => format!("{}:detached:{}", st.tasks[t].name, desc),
                Status::Ready => format!("{}:ready", st.tasks[t].name),
                Status::Running => format!("{}:running", st.tasks[t].name),
                Status::Done => "done".into(),
            };
            (t, d)
        })
        .collect()
}

/// Run `main` as task 0 on the calling thread under the scheduler; returns when
/// every task has finished.
pub fn run<F: FnOnce()>(cfg: Config, main: F) -> Report {
    assert!(!in_sim(), "nested detsim::run");
    if PASSTHROUGH.load(Ordering::Relaxed) {
        main();
        return Report {
            outcome: Outcome::Done,
            trace: vec![],
            steps: 0,
            switches: 0,
            tasks: 1,
            escaped_panics: vec![],
            max_live: 0,
        };
    }
    let sim = Arc::new(Sim {
        st: Mutex::new(State {
            tasks: vec![TaskRec { status: Status::Running, info: 0, slot: Slot::new(), name: "main", tid: my_tid(), ret_seen: false, stat: None }],
            live: vec![0],
            current: 0,
            trace: Vec::new(),
            replay: cfg.replay,
            replay_pos: 0,
            rng: Rng::new(cfg.seed),
            strategy: cfg.strategy,
            steps: 0,
            switches: 0,
            max_steps: cfg.max_steps,
            escaped: Vec::new(),
            finished: false,
            max_live: 1,
            step_limit_hit: false,
            baton_free: false,
            free_gen: 0,
            sim_gen: SIM_GEN.fetch_add(1, Ordering::Relaxed) + 1,
            implicit_out: 0,
        }),
        fin: Condvar::new(),
    });
    CUR.with(|c| *c.borrow_mut() = Some((sim.clone(), 0)));
    if !cfg!(miri) {
        *WATCHED.lock().unwrap() = Some(sim.clone());
        start_monitor();
    }
    let r = catch_unwind(AssertUnwindSafe(main));
    reattach_if_detached();
    {
        let mut st = sim.st.lock().unwrap();
        if let Err(p) = &r {
            st.escaped.push(format!("main: {}", payload_str(p.as_ref())));
        }
        st.tasks[0].status = Status::Done;
        st.live.retain(|&t| t != 0);
        sim.switch(0, st, true);
    }
    let mut st = sim.st.lock().unwrap();
    while !st.finished {
        st = sim.fin.wait(st).unwrap();
    }
    let rep = make_report(&st, Outcome::Done);
    drop(st);
    CUR.with(|c| *c.borrow_mut() = None);
    if !cfg!(miri) {
        *WATCHED.lock().unwrap() = None;
    }
    rep
}

/// Create a new task. It becomes ready; the caller keeps the baton.
/// Safety of borrowed data inside `f` is the caller's business (it must not
/// return before the task has finished - see simrayon).
pub fn spawn(name: &'static str, f: Box<dyn FnOnce() + Send + 'static>) -> TaskId {
    if PASSTHROUGH.load(Ordering::Relaxed) || !in_sim() {
        os_spawn(f);
        return 0;
    }
    let (sim, _me) = cur().expect("spawn outside sim");
    reattach_if_detached();
    let slot = Slot::new();
    let id;
    {
        let mut st = sim.st.lock().unwrap();
        id = st.tasks.len();
        st.tasks.push(TaskRec { status: Status::Ready, info: 0, slot: slot.clone(), name, tid: 0, ret_seen: false, stat: None });
        st.live.push(id);
        let l = st.live.len();
        if l > st.max_live {
            st.max_live = l;
        }
    }
    let sim2 = sim.clone();
    os_spawn(Box::new(move || {
        slot.wait();
        CUR.with(|c| *c.borrow_mut() = Some((sim2.clone(), id)));
        sim2.st.lock().unwrap().tasks[id].tid = my_tid();
        let r = catch_unwind(AssertUnwindSafe(f));
        reattach_if_detached();
        let mut st = sim2.st.lock().unwrap();
        if let Err(p) = &r {
            st.escaped.push(format!("task {} ({}): {}", id, name, payload_str(p.as_ref())));
        }
        st.tasks[id].status = Status::Done;
        st.live.retain(|&t| t != id);
        CUR.with(|c| *c.borrow_mut() = None);
        sim2.switch(id, st, true);
    }));
    id
}

/// Scheduler point.
pub fn yield_point() {
    if ext::ACTIVE.load(Ordering::Relaxed) {
        return ext::yield_with_info(0);
    }
    if PASSTHROUGH.load(Ordering::Relaxed) {
        GLOBAL_STEP.fetch_add(1, Ordering::Relaxed);
        std::thread::yield_now();
        return;
    }
    let Some((sim, me)) = cur() else { return };
    reattach_if_detached();
    let mut st = sim.st.lock().unwrap();
    st.tasks[me].status = Status::Ready;
    sim.switch(me, st, false);
}

/// Set the tag strategies see for the current task.
pub fn set_info(info: u64) {
    if PASSTHROUGH.load(Ordering::Relaxed) || ext::ACTIVE.load(Ordering::Relaxed) {
        return;
    }
    let Some((sim, me)) = cur() else { return };
    reattach_if_detached();
    sim.st.lock().unwrap().tasks[me].info = info & !CHOSEN_BIT;
}

/// Scheduler point that also updates the tag first.
pub fn yield_with_info(info: u64) {
    if ext::ACTIVE.load(Ordering::Relaxed) {
        return ext::yield_with_info(info);
    }
    if PASSTHROUGH.load(Ordering::Relaxed) {
        GLOBAL_STEP.fetch_add(1, Ordering::Relaxed);
        std::thread::yield_now();
        return;
    }
    let Some((sim, me)) = cur() else { return };
    reattach_if_detached();
    let mut st = sim.st.lock().unwrap();
    st.tasks[me].info = info & !CHOSEN_BIT;
    st.tasks[me].status = Status::Ready;
    sim.switch(me, st, false);
}

/// Block until `cond` holds. `cond` is evaluated by whichever task makes a
/// scheduling decision, under the scheduler lock; it must only read state that
/// is modified by baton holders.
pub fn block_until(desc: &'static str, cond: impl Fn() -> bool + Send + 'static) {
    if ext::ACTIVE.load(Ordering::Relaxed) {
        return ext::block_until(desc, cond);
    }
    if PASSTHROUGH.load(Ordering::Relaxed) {
        // plain threads: sleep on a condition variable that `poke` signals (no spinning: under
        // Miri a spinning thread costs as much as a working one)
        let mut g = PT_LOCK.lock().unwrap();
        while !cond() {
            g = PT_CV.wait(g).unwrap();
        }
        return;
    }
    if !in_sim() {
        while !cond() {
            std::thread::yield_now();
        }
        return;
    }
    let (sim, me) = cur().unwrap();
    reattach_if_detached();
    let mut st = sim.st.lock().unwrap();
    st.tasks[me].status = Status::Blocked(desc, Box::new(cond));
    sim.switch(me, st, false);
}

static PT_LOCK: Mutex<()> = Mutex::new(());
static PT_CV: Condvar = Condvar::new();

/// Pass-through mode only: something a `block_until` condition reads has changed. (Under the
/// scheduler conditions are re-evaluated at every decision and this does nothing.)
pub fn poke() {
    if PASSTHROUGH.load(Ordering::Relaxed) {
        let _g = PT_LOCK.lock().unwrap();
        PT_CV.notify_all();
    }
}

/// Data nondeterminism: a value in 0..n chosen by the strategy / the trace.
pub fn choose(tag: u32, n: usize) -> usize {
    if n <= 1 {
        return 0;
    }
    if ext::ACTIVE.load(Ordering::Relaxed) {
        return ext::choose(tag, n);
    }
    if PASSTHROUGH.load(Ordering::Relaxed) {
        return (GLOBAL_STEP.fetch_add(1, Ordering::Relaxed) as usize) % n;
    }
    let Some((sim, _me)) = cur() else { return 0 };
    reattach_if_detached();
    let mut st = sim.st.lock().unwrap();
    let v = if let Some(rp) = st.replay.as_ref() {
        let v = rp.get(st.replay_pos).copied().unwrap_or(0) as usize;
        st.replay_pos += 1;
        if v < n { v } else { 0 }
    } else {
        let State { strategy, rng, .. } = &mut *st;
        let v = strategy.pick_data(tag, n, rng);
        if v < n { v } else { 0 }
    };
    st.trace.push(v as u32);
    v
}

/// Execute a real blocking call of the code under test without the baton.
///
/// `cond` is the simulator's model of when the call can return. The task is
/// runnable once `cond` holds; the scheduler then waits for the physical
/// return. `at_return` runs on this thread at the instant the call comes back
/// (or at the first scheduler point reached inside the call), *before* the
/// baton is re-acquired: it must only read atomics. If the call returns while
/// `cond` is false, the task is resumed as soon as nothing else can run.
pub fn detached<R>(
    desc: &'static str,
    cond: impl Fn() -> bool + Send + 'static,
    at_return: impl FnOnce() + 'static,
    call: impl FnOnce() -> R,
) -> R {
    if PASSTHROUGH.load(Ordering::Relaxed) || ext::ACTIVE.load(Ordering::Relaxed) || !in_sim() {
        let r = call();
        at_return();
        return r;
    }
    let (sim, me) = cur().unwrap();
    reattach_if_detached();
    AT_RETURN.with(|a| *a.borrow_mut() = Some(Box::new(at_return)));
    {
        let mut st = sim.st.lock().unwrap();
        st.tasks[me].status = Status::Detached { desc, cond: Box::new(cond), returned: false };
        st.tasks[me].ret_seen = false;
        sim.switch(me, st, true);
    }
    let r = catch_unwind(AssertUnwindSafe(call));
    reattach_if_detached();
    if let Some(f) = AT_RETURN.with(|a| a.borrow_mut().take()) {
        // the call never left the baton (its condition held at once)
        f();
    }
    match r {
        Ok(v) => v,
        Err(p) => std::panic::resume_unwind(p),
    }
}

fn reattach_if_detached() {
    let Some((sim, me)) = cur() else { return };
    let slot;
    {
        let mut st = sim.st.lock().unwrap();
        match &st.tasks[me].status {
            Status::Detached { .. } => {}
            _ => return,
        }
        if let Some(f) = AT_RETURN.with(|a| a.borrow_mut().take()) {
            f();
        }
        slot = st.tasks[me].slot.clone();
        if st.baton_free {
            // nobody else could run while the call was out: take the baton back directly
            st.baton_free = false;
            if matches!(st.tasks[me].status, Status::Detached { desc, .. } if desc == IMPLICIT_DESC) {
                st.implicit_out = st.implicit_out.saturating_sub(1);
            }
            st.tasks[me].info &= !CHOSEN_BIT;
            st.tasks[me].status = Status::Running;
            st.current = me;
            return;
        }
        if st.tasks[me].info & CHOSEN_BIT != 0 {
            // already chosen by the scheduler: the baton is ours, the wake flag is set
        } else if let Status::Detached { desc, .. } = &st.tasks[me].status {
            // keep the original wake condition; remember that we are back
            let d = *desc;
            let old = std::mem::replace(&mut st.tasks[me].status, Status::Ready);
            if let Status::Detached { cond, .. } = old {
                if d == IMPLICIT_DESC {
                    // no model of when that call may return: it has returned, so it may go on
                    st.implicit_out = st.implicit_out.saturating_sub(1);
                    st.tasks[me].status = Status::Detached { desc: d, cond: Box::new(|| true), returned: true };
                } else {
                    st.tasks[me].status = Status::Detached { desc: d, cond, returned: true };
                }
            }
        }
    }
    slot.wait();
    let mut st = sim.st.lock().unwrap();
    st.tasks[me].info &= !CHOSEN_BIT;
    st.tasks[me].status = Status::Running;
}

/// Record a panic that escaped somewhere it must not (e.g. a detached pool job).
pub fn record_escaped(msg: String) {
    if ext::ACTIVE.load(Ordering::Relaxed) {
        return ext::record_escaped(msg);
    }
    if let Some((sim, _)) = cur() {
        sim.st.lock().unwrap().escaped.push(msg);
    }
}
