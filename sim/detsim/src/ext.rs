//! External-thread mode (engine R): the threads are not ours (a real rayon
//! pool, the real caller thread) and run the real code; harness code parks
//! them at scheduler points and a controller releases them one at a time.
//!
//! The controller decides only at *quiescence*: every thread of the process
//! (other than itself) is asleep - parked at one of our points, idle inside
//! the pool, or blocked in a real blocking call - and none of them has run
//! between two consecutive samples of /proc/self/task/*/schedstat. The system
//! is closed (no timers), so at quiescence the set of parked tasks is a pure
//! function of the decisions taken so far: the event log is deterministic at
//! event level although the pool's internal stealing is not controlled.
//!
//! Options are ordered by their tag (`info`), never by thread or arrival
//! order, so a choice index means the same thing in every replay.

use std::cell::Cell;
use std::panic::{catch_unwind, AssertUnwindSafe};
use std::sync::atomic::{AtomicBool, AtomicUsize, Ordering};
use std::sync::{Arc, Condvar, Mutex};

use crate::{Config, Outcome, Report, Rng, Strategy, TaskView};

type Cond = Box<dyn Fn() -> bool + Send>;

struct Slot {
    go: Mutex<bool>,
    cv: Condvar,
}

struct Parked {
    token: u64,
    slot: Arc<Slot>,
    info: u64,
    cond: Option<Cond>,
    desc: &'static str,
    was_current: bool,
}

struct State {
    parked: Vec<Parked>,
    trace: Vec<u32>,
    replay: Option<Vec<u32>>,
    replay_pos: usize,
    rng: Rng,
    strategy: Box<dyn Strategy>,
    steps: u64,
    switches: u64,
    max_steps: u64,
    finished: bool,
    last_released: Option<u64>,
    /// arrival number of the task released last (a stale tag of another thread can repeat, an
    /// arrival number cannot)
    last_token: u64,
    arrivals: u64,
    escaped: Vec<String>,
    polls: u64,
}

pub struct Ext {
    st: Mutex<State>,
    cv: Condvar,
}

pub static ACTIVE: AtomicBool = AtomicBool::new(false);
static CUR: Mutex<Option<Arc<Ext>>> = Mutex::new(None);
static NEXT_TID: AtomicUsize = AtomicUsize::new(1);

thread_local! {
    static MY_ID: Cell<usize> = const { Cell::new(usize::MAX) };
    static MY_INFO: Cell<u64> = const { Cell::new(0) };
    static MY_TOKEN: Cell<u64> = const { Cell::new(u64::MAX - 1) };
}

fn ext() -> Option<Arc<Ext>> {
    CUR.lock().unwrap().clone()
}

/// Stable id of the calling OS thread (0 = the thread that called `run_ext`).
pub fn current_task() -> usize {
    MY_ID.with(|c| {
        if c.get() == usize::MAX {
            c.set(NEXT_TID.fetch_add(1, Ordering::SeqCst));
        }
        c.get()
    })
}

fn gettid() -> i32 {
    unsafe { libc_gettid() }
}

extern "C" {
    fn syscall(num: std::ffi::c_long, ...) -> std::ffi::c_long;
}
unsafe fn libc_gettid() -> i32 {
    // SYS_gettid = 186 on x86_64
    unsafe { syscall(186) as i32 }
}

/// (state is sleeping, cumulative run time, timeslices) of every thread except `skip`.
fn sample(skip: i32) -> Option<Vec<(i32, u64, u64)>> {
    let mut v = Vec::new();
    let rd = std::fs::read_dir("/proc/self/task").ok()?;
    for e in rd.flatten() {
        let name = e.file_name();
        let tid: i32 = name.to_str()?.parse().ok()?;
        if tid == skip {
            continue;
        }
        let stat = match std::fs::read_to_string(format!("/proc/self/task/{}/stat", tid)) {
            Ok(s) => s,
            Err(_) => continue, // thread ended meanwhile
        };
        // state is the first field after the closing parenthesis of the command name
        let st = stat.rsplit_once(')').map(|x| x.1.trim_start().chars().next().unwrap_or('R')).unwrap_or('R');
        if st != 'S' && st != 'Z' && st != 'X' {
            return None;
        }
        let ss = std::fs::read_to_string(format!("/proc/self/task/{}/schedstat", tid)).unwrap_or_default();
        let mut it = ss.split_whitespace();
        let run: u64 = it.next().and_then(|x| x.parse().ok()).unwrap_or(0);
        let _wait = it.next();
        let slices: u64 = it.next().and_then(|x| x.parse().ok()).unwrap_or(0);
        v.push((tid, run, slices));
    }
    Some(v)
}

/// True when no thread but the controller can make progress on its own.
fn quiescent(skip: i32) -> bool {
    let Some(a) = sample(skip) else { return false };
    let Some(b) = sample(skip) else { return false };
    a == b
}

fn controller(ext: Arc<Ext>) -> Outcome {
    let o = controller_loop(&ext);
    if o != Outcome::Done {
        // the caller is stuck inside a real blocking call: nothing can be unwound
        let rep = fatal_from_controller(o.clone(), &ext);
        crate::fatal(&rep);
    }
    o
}

fn controller_loop(ext: &Arc<Ext>) -> Outcome {
    let me = gettid();
    loop {
        // wait for quiescence (bounded spinning with short sleeps; no decision depends on time)
        let mut spins = 0u32;
        loop {
            {
                let st = ext.st.lock().unwrap();
                if st.finished && st.parked.is_empty() {
                    return Outcome::Done;
                }
            }
            if quiescent(me) {
                break;
            }
            spins += 1;
            if spins > 20 {
                std::thread::sleep(std::time::Duration::from_micros(50));
            } else {
                std::thread::yield_now();
            }
        }
        let mut st = ext.st.lock().unwrap();
        st.polls += 1;
        if st.finished && st.parked.is_empty() {
            return Outcome::Done;
        }
        // options: the task released last first (if it is back), then by tag
        let mut idx: Vec<usize> = (0..st.parked.len()).filter(|&i| st.parked[i].cond.as_ref().map(|c| c()).unwrap_or(true)).collect();
        idx.sort_by_key(|&i| (!st.parked[i].was_current, st.parked[i].info));
        if idx.is_empty() {
            if st.finished {
                return Outcome::Done;
            }
            let blocked = st.parked.iter().map(|p| (crate::tag_sid(p.info), format!("{}:{:x}", p.desc, p.info))).collect();
            return Outcome::Deadlock(blocked);
        }
        st.steps += 1;
        if st.steps > st.max_steps {
            return Outcome::StepLimit;
        }
        let views: Vec<TaskView> = idx
            .iter()
            .map(|&i| TaskView { id: crate::tag_sid(st.parked[i].info), info: st.parked[i].info, is_current: st.parked[i].was_current, was_blocked: st.parked[i].cond.is_some() })
            .collect();
        let k = if views.len() == 1 {
            0
        } else {
            let k = if let Some(rp) = st.replay.as_ref() {
                let v = rp.get(st.replay_pos).copied().unwrap_or(0) as usize;
                st.replay_pos += 1;
                if v < views.len() { v } else { 0 }
            } else {
                let step = st.steps;
                let State { strategy, rng, .. } = &mut *st;
                let v = strategy.pick(step, &views, rng);
                if v < views.len() { v } else { 0 }
            };
            st.trace.push(k as u32);
            k
        };
        if std::env::var("VERIF_DUMP_DECISIONS").is_ok() {
            println!("DEC step={} opts={:?} pick={}", st.steps, views.iter().map(|v| format!("{:x}{}", v.info, if v.is_current { "*" } else { "" })).collect::<Vec<_>>(), k);
        }
        let chosen = idx[k];
        let p = st.parked.remove(chosen);
        for q in st.parked.iter_mut() {
            q.was_current = false;
        }
        if st.last_released != Some(p.info) {
            st.switches += 1;
        }
        st.last_released = Some(p.info);
        st.last_token = p.token;
        drop(st);
        let mut g = p.slot.go.lock().unwrap();
        *g = true;
        p.slot.cv.notify_one();
    }
}

fn park(info: u64, cond: Option<Cond>, desc: &'static str) {
    let Some(e) = ext() else { return };
    let slot = Arc::new(Slot { go: Mutex::new(false), cv: Condvar::new() });
    {
        let mut st = e.st.lock().unwrap();
        // "current" = the same thread continuing the same system (or the caller continuing):
        // which OS thread picks up the *next* system is the pool's business and must not show
        let was_current = st.last_token == MY_TOKEN.with(|c| c.get()) && st.last_released.map(crate::tag_sid) == Some(crate::tag_sid(info));
        st.arrivals += 1;
        let token = st.arrivals;
        MY_TOKEN.with(|c| c.set(token));
        st.parked.push(Parked { token, slot: slot.clone(), info, cond, desc, was_current });
    }
    MY_INFO.with(|c| c.set(info));
    let mut g = slot.go.lock().unwrap();
    while !*g {
        g = slot.cv.wait(g).unwrap();
    }
}

pub fn yield_with_info(info: u64) {
    park(info, None, "point");
}

pub fn block_until(desc: &'static str, cond: impl Fn() -> bool + Send + 'static) {
    let info = MY_INFO.with(|c| c.get());
    park(info, Some(Box::new(cond)), desc);
}

pub fn choose(tag: u32, n: usize) -> usize {
    let Some(e) = ext() else { return 0 };
    let mut st = e.st.lock().unwrap();
    let v = if let Some(rp) = st.replay.as_ref() {
        let v = rp.get(st.replay_pos).copied().unwrap_or(0) as usize;
        st.replay_pos += 1;
        if v < n { v } else { 0 }
    } else {
        let State { strategy, rng, .. } = &mut *st;
        let v = strategy.pick_data(tag, n, rng);
        if v < n { v } else { 0 }
    };
    st.trace.push(v as u32);
    v
}

pub fn record_escaped(msg: String) {
    if let Some(e) = ext() {
        e.st.lock().unwrap().escaped.push(msg);
    }
}

pub fn steps() -> u64 {
    ext().map(|e| e.st.lock().unwrap().steps).unwrap_or(0)
}

/// Run `main` on the calling thread (task 0) while a controller releases parked threads.
pub fn run_ext<F: FnOnce()>(cfg: Config, main: F) -> Report {
    let e = Arc::new(Ext {
        st: Mutex::new(State {
            parked: Vec::new(),
            trace: Vec::new(),
            replay: cfg.replay,
            replay_pos: 0,
            rng: Rng::new(cfg.seed),
            strategy: cfg.strategy,
            steps: 0,
            switches: 0,
            max_steps: cfg.max_steps,
            finished: false,
            last_released: None,
            last_token: u64::MAX,
            arrivals: 0,
            escaped: Vec::new(),
            polls: 0,
        }),
        cv: Condvar::new(),
    });
    *CUR.lock().unwrap() = Some(e.clone());
    MY_ID.with(|c| c.set(0));
    MY_INFO.with(|c| c.set(0));
    MY_TOKEN.with(|c| c.set(u64::MAX - 1));
    ACTIVE.store(true, Ordering::SeqCst);
    let e2 = e.clone();
    let ctl = std::thread::Builder::new().name("detsim-controller".into()).spawn(move || controller(e2)).expect("controller");
    let r = catch_unwind(AssertUnwindSafe(main));
    {
        let mut st = e.st.lock().unwrap();
        st.finished = true;
        if let Err(p) = &r {
            st.escaped.push(format!("main: {}", crate::payload_str(p.as_ref())));
        }
    }
    e.cv.notify_all();
    let mut outcome = Outcome::Done;
    // the controller returns early on deadlock / step limit: the run cannot be unwound then
    if let Ok(o) = ctl.join() {
        outcome = o;
    }
    ACTIVE.store(false, Ordering::SeqCst);
    *CUR.lock().unwrap() = None;
    let st = e.st.lock().unwrap();
    Report { outcome, trace: st.trace.clone(), steps: st.steps, switches: st.switches, tasks: 0, escaped_panics: st.escaped.clone(), max_live: 0 }
}

/// Deadlock handling needs the controller to report while `main` is stuck inside the real
/// blocking call: the harness installs a fatal handler; `watch` is polled by the controller
/// thread itself through this entry point.
pub fn fatal_from_controller(outcome: Outcome, e: &Arc<Ext>) -> Report {
    let st = e.st.lock().unwrap();
    Report { outcome, trace: st.trace.clone(), steps: st.steps, switches: st.switches, tasks: 0, escaped_panics: st.escaped.clone(), max_live: 0 }
}
