//! xoshiro256** seeded through SplitMix64. Own implementation so that the
//! stream is a fixed function of the seed on every toolchain.

#[derive(Clone, Debug)]
pub struct Rng {
    s: [u64; 4],
}

fn splitmix(x: &mut u64) -> u64 {
    *x = x.wrapping_add(0x9E37_79B9_7F4A_7C15);
    let mut z = *x;
    z = (z ^ (z >> 30)).wrapping_mul(0xBF58_476D_1CE4_E5B9);
    z = (z ^ (z >> 27)).wrapping_mul(0x94D0_49BB_1331_11EB);
    z ^ (z >> 31)
}

impl Rng {
    pub fn new(seed: u64) -> Rng {
        let mut x = seed;
        let s = [splitmix(&mut x), splitmix(&mut x), splitmix(&mut x), splitmix(&mut x)];
        Rng { s }
    }

    /// Independent sub-stream `k` of this seed (scenario / schedule / faults / hash keys).
    pub fn sub(seed: u64, k: u64) -> Rng {
        let mut x = seed ^ k.wrapping_mul(0xD6E8_FEB8_6659_FD93).rotate_left(17);
        let _ = splitmix(&mut x);
        Rng::new(splitmix(&mut x) ^ k)
    }

    pub fn next_u64(&mut self) -> u64 {
        let r = self.s[1].wrapping_mul(5).rotate_left(7).wrapping_mul(9);
        let t = self.s[1] << 17;
        self.s[2] ^= self.s[0];
        self.s[3] ^= self.s[1];
        self.s[1] ^= self.s[2];
        self.s[0] ^= self.s[3];
        self.s[2] ^= t;
        self.s[3] = self.s[3].rotate_left(45);
        r
    }

    /// Uniform in 0..n (n > 0).
    pub fn below(&mut self, n: u64) -> u64 {
        debug_assert!(n > 0);
        // multiply-shift; bias is irrelevant here
        ((self.next_u64() as u128 * n as u128) >> 64) as u64
    }

    pub fn range(&mut self, lo: u64, hi_incl: u64) -> u64 {
        lo + self.below(hi_incl - lo + 1)
    }

    pub fn chance(&mut self, num: u64, den: u64) -> bool {
        self.below(den) < num
    }

    pub fn pick<'a, T>(&mut self, v: &'a [T]) -> &'a T {
        &v[self.below(v.len() as u64) as usize]
    }

    pub fn shuffle<T>(&mut self, v: &mut [T]) {
        for i in (1..v.len()).rev() {
            let j = self.below(i as u64 + 1) as usize;
            v.swap(i, j);
        }
    }
}
