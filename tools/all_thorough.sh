#!/usr/bin/env bash
# tools/all_thorough.sh [budget-s]  - every claimed check at the thorough tier, one after another
cd "$(dirname "$0")/.."
export VERIF_OUT=${VERIF_OUT:-$(mktemp -d)}
for p in $(python3 -c "import json;print(' '.join(c['property_id'] for c in json.load(open('MANIFEST.json'))['checks']))"); do
  t0=$(date +%s)
  out=$(VERIF_BUDGET_S=${1:-300} bin/check $p thorough 2>&1); rc=$?
  echo "THOROUGH $p rc=$rc $(( $(date +%s) - t0 ))s :: $(echo "$out" | tail -1 | cut -c1-200)"
  [ $rc -ne 0 ] && echo "$out" | grep -E "VIOLATION|class=|HARNESS|KNOWN" | cut -c1-300
done
echo "evidence in $VERIF_OUT/evidence"
