#!/usr/bin/env bash
# confirm every seeded change, 4 at a time
cd /verif/seeded
ls -d C* | xargs -P 4 -I{} sh -c 'slot=$(( $(echo {} | cksum | cut -d" " -f1) % 4 )); flock /tmp/cw-lock-$slot /verif/tools/confirm_seeded.sh {} $slot' 
rm -rf /tmp/cw-target-* /tmp/cw-lock-*
