#!/usr/bin/env python3
"""Writes seeded/<id>/meta.json from confirm.json (tools/confirm_seeded.sh), the notes of the
author of the change and the verdict lines of tools/run_all_seeded.sh (given as a file)."""
import json, os, re, sys
log = sys.argv[1] if len(sys.argv) > 1 else None
verdicts = {}
if log and os.path.exists(log):
    for l in open(log):
        m = re.match(r'(C\d+-(?:w\d+)?m\d) (C\d+): exit=(\d+) violations=(\d+)\s*(.*)', l.strip())
        if m:
            verdicts.setdefault(m.group(1), {})[m.group(2)] = {"exit": int(m.group(3)), "violations": int(m.group(4)), "first": m.group(5)[:220]}
base = '/verif/seeded'
not_expected = json.load(open(os.path.join(base, 'not_expected.json'))) if os.path.exists(os.path.join(base, 'not_expected.json')) else {}
rows = []
for d in sorted(os.listdir(base)):
    p = os.path.join(base, d)
    if not (os.path.isdir(p) and d[0] == 'C'):
        continue
    prop = d.split('-')[0]
    notes = open(os.path.join(p, 'notes.md')).read() if os.path.exists(os.path.join(p, 'notes.md')) else ''
    conf = json.load(open(os.path.join(p, 'confirm.json'))) if os.path.exists(os.path.join(p, 'confirm.json')) else {}
    old = json.load(open(os.path.join(p, 'meta.json'))) if os.path.exists(os.path.join(p, 'meta.json')) else {}
    needs = ''
    m = re.search(r'(?is)(needs?[^\n]*\n(?:.*\n){0,6})', notes)
    first_par = notes.strip().split('\n\n')[0][:600]
    det = dict(old.get('detected_by', {}))
    det.update(verdicts.get(d, {}))
    meta = {
        "id": d,
        "breaks_property": prop,
        "written_by": "independent sub-agent given only the property text and a scratch worktree of /repo",
        "what": first_par,
        "needs_to_manifest": (m.group(1).strip()[:700] if m else "see notes.md"),
        "confirmed": {
            "how": "tools/confirm_seeded.sh in a scratch worktree: git apply; cargo test --workspace --offline (pinned suite) with the change; the demonstration (demo.rs as an integration test) with and without the change",
            **conf,
        },
        "detected_by": det,
        "caught": any(v.get("exit") == 1 for v in det.values()),
    }
    if d in not_expected:
        meta["not_expected_to_be_caught"] = not_expected[d]
    json.dump(meta, open(os.path.join(p, 'meta.json'), 'w'), indent=1)
    rows.append((d, prop, conf.get('suite_with_change'), conf.get('demo_with_change'), conf.get('demo_without_change'), ', '.join('%s:%s' % (k, 'caught' if v['exit'] == 1 else ('build-error' if v['exit'] == 2 else 'MISSED')) for k, v in sorted(det.items()))))
print('| change | property | suite with change | demo with | demo without | checks |')
print('|---|---|---|---|---|---|')
for r in rows:
    print('| %s | %s | %s | %s | %s | %s |' % r)
