#!/usr/bin/env bash
# tools/confirm_seeded.sh <seeded-id> [slot]
# Confirms one seeded change in a scratch worktree of /repo (outside /repo and /verif):
#   patch applies, crate builds, the pinned test suite passes with it, the demonstration fails
#   with it and passes without it. Writes seeded/<id>/confirm.json. Removes the worktree.
set -u
ID="$1"; SLOT="${2:-0}"
VERIF=/verif; REPO=/repo
D="$VERIF/seeded/$ID"
WT="/tmp/cw-$ID"
export CARGO_NET_OFFLINE=true
export CARGO_TARGET_DIR="/tmp/cw-target-$SLOT"
git -C $REPO worktree remove --force "$WT" >/dev/null 2>&1
git -C $REPO worktree add --detach "$WT" HEAD >/dev/null 2>&1 || { echo "worktree failed"; exit 2; }
cd "$WT"
res() { python3 - "$@" <<'PY'
import json,sys
a=sys.argv[1:]
d=dict(zip(a[0::2],a[1::2]))
json.dump(d,open(d.pop('out'),'w'),indent=1)
PY
}
applies=no; suite=skip; demo_with=skip; demo_without=skip
if git apply --check "$D/patch.diff" 2>/dev/null; then git apply "$D/patch.diff"; applies=yes
elif git apply --3way "$D/patch.diff" 2>/dev/null; then applies=3way
fi
FEAT=""
grep -q "no-default-features" "$D/notes.md" 2>/dev/null && grep -q "demo.*--no-default-features" "$D/notes.md" && FEAT="--no-default-features"
if [ "$applies" != no ]; then
  if timeout 900 cargo test --workspace --offline > /tmp/cw-$ID-suite.log 2>&1; then suite=pass; else suite=fail; fi
  cp "$D/demo.rs" tests/zz_demo.rs
  if timeout 600 cargo test --offline $FEAT --test zz_demo > /tmp/cw-$ID-with.log 2>&1; then demo_with=pass; else demo_with=fail; fi
  rm -f tests/zz_demo.rs
  git reset -q --hard; git clean -fdq
  cp "$D/demo.rs" tests/zz_demo.rs
  if timeout 600 cargo test --offline $FEAT --test zz_demo > /tmp/cw-$ID-without.log 2>&1; then demo_without=pass; else demo_without=fail; fi
  rm -f tests/zz_demo.rs
fi
res out "$D/confirm.json" id "$ID" base "$(git -C $REPO rev-parse --short HEAD)" applies "$applies" suite_with_change "$suite" demo_with_change "$demo_with" demo_without_change "$demo_without" demo_features "$FEAT"
cd /; git -C $REPO worktree remove --force "$WT"; rm -f /tmp/cw-$ID-*.log
echo "$ID applies=$applies suite=$suite demo_with=$demo_with demo_without=$demo_without"
