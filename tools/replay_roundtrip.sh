#!/usr/bin/env bash
# tools/replay_roundtrip.sh <seeded-id> <PROP>
# End-to-end check of the replay contract: find the violation on a tree with the seeded change,
# then replay the written file in a fresh process against the same tree (must reproduce, exit 1,
# identical event log) and against the unchanged tree (must not reproduce, exit 0).
set -u
ID="$1"; PROP="$2"
WT=/tmp/rt-slot; OUT=/tmp/rt-out
git -C /repo worktree remove --force $WT >/dev/null 2>&1; rm -rf $WT $OUT; git -C /repo worktree prune
git -C /repo worktree add --detach $WT HEAD >/dev/null 2>&1 || exit 2
( cd $WT && git apply /verif/seeded/$ID/patch.diff ) || exit 2
mkdir -p $OUT
VERIF_REPO=$WT VERIF_OUT=$OUT VERIF_JOBS=6 VERIF_BUDGET_S=${VERIF_BUDGET_S:-15} VERIF_BUDGET_R_S=0 /verif/bin/check $PROP quick > $OUT/log 2>&1
f=$(grep -m1 '^VIOLATION' $OUT/log | sed 's/.*replay=//')
if [ -z "$f" ]; then echo "$ID $PROP: no violation found"; else
  VERIF_REPO=$WT /verif/bin/check $PROP --replay "$f" > $OUT/r1 2>&1; rc1=$?
  /verif/bin/check $PROP --replay "$f" > $OUT/r2 2>&1; rc2=$?
  echo "$ID $PROP: on the changed tree rc=$rc1 ($(grep -m1 -o 'REPRODUCED.*\|NOT REPRODUCED' $OUT/r1)); on the unchanged tree rc=$rc2 ($(grep -m1 -o 'REPRODUCED.*\|NOT REPRODUCED' $OUT/r2))"
fi
KEY=$(printf '%s' "$WT" | cksum | cut -d' ' -f1); rm -rf /verif/build/$KEY $OUT
git -C /repo worktree remove --force $WT
