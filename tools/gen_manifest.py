#!/usr/bin/env python3
"""Regenerates /verif/MANIFEST.json from the table below (kept in one place so it stays valid)."""
import json, subprocess
CLAIMED = {
 "C01": ("exploration", "S", "deterministic simulation: hold-every-system / max-overlap / random schedules over generated plans; window-disjointness oracle on the event history + real AtomicRefCell borrow panics", "5.C01"),
 "C02": ("exploration", "S", "deterministic simulation: the dependency is starved inside run (hold strategy) while everything else runs to quiescence; oracle exit(dep) < enter(dependent)", "5.C02"),
 "C03": ("exploration", "S", "deterministic simulation: every pre-barrier system held in turn; oracle exit(before) < enter(after); redundant-barrier metamorphic comparison", "5.C03"),
 "C04": ("exploration", "S", "deterministic simulation: run counters per generated call sequence under seeded schedules and pool sizes; shape-sum of the executed plan", "5.C04"),
 "C05": ("exploration", "S", "deterministic simulation: simulated parallel dispatch vs dispatch_seq on the same dispatcher object (world and system states restored), non-commutative updates", "5.C05"),
 "C06": ("fault_enumeration", "W", "fault enumeration: for every provided/derived system-data type (270 generated tuple/nesting types + derived structs) every member's resource is made absent in turn (crash point inside fetch with earlier guards held), cell states probed while the value lives and after the unwind; seeded multi-failure subsets; independent Describe oracle", "5.C06"),
 "C08": ("exploration", "W", "deterministic simulation: 1-4 client tasks under the seeded scheduler issue fetch/try/by-id/system-data/meta-iterator/clone/drop/unwind operations on one shared World; reference borrow-state model checked after every operation, canary writes with a scheduler point inside", "5.C08"),
 "C09": ("exploration", "W", "seeded operation histories with injected callback panics (Default, or_insert_with closure, Drop) and mismatching type arguments against a reference typed map; drop counters", "5.C09"),
 "C17": ("exploration", "W", "deterministic simulation: meta-table histories (registrations with repeats, get/get_mut, iter/iter_mut advanced step by step with guards kept alive, address-changing cast) by 1-4 tasks against a reference registration list + borrow model", "5.C17"),
 "C07": ("exploration", "S", "deterministic simulation: batch window vs conflicting outer windows under hold/max-overlap schedules; inner dispatches re-checked with the C01-C04 oracles", "5.C07"),
 "C11": ("exploration", "S", "deterministic simulation: rendezvous of all group heads (or of arbitrary members of several groups, with a panic in a group that does not take part) of a stage on a pool with exactly enough workers; exact deadlock detection", "5.C11"),
 "C12": ("exploration", "S", "deterministic simulation: task identity, start time and order of thread-local systems recorded in the event history under seeded schedules", "5.C12"),
 "C13": ("exploration", "S", "deterministic simulation of the lifecycle (setup / remove / overwrite / setup again / dispatches incl. panicking ones / dispose) against a reference world and per-system lifecycle counters", "5.C13"),
 "C15": ("exploration", "S", "deterministic simulation: the caller is a simulated task issuing dispatch/running/wait/world/... at scheduler-chosen instants; blocking accessors run the real mpsc::recv through the detach protocol; oracle evaluated at the instant each accessor returns", "5.C15"),
 "C16": ("exploration", "S", "deterministic simulation: Par/Seq trees assembled at run time from the real nodes (boxing adapter), dispatched under hold/max-overlap/random schedules from outside and inside pools of 1-16 workers; seq-order, exactly-once, union and debug-check oracles", "5.C16"),
 "C19": ("exploration", "S", "simulator-owned environment: the same registration sequence rebuilt under other hash-key streams (ahash random-source seam), renamings, injective resource relabellings across types and dynamic ids, permuted declared lists; executed layouts compared", "5.C19"),
 "C20": ("exploration", "S", "generated registration sequences formatted ({:?}, {:#?}, also midway through registration) under catch_unwind; the text is parsed and compared position by position with the executed layout (shape hook + identification run)", "5.C20"),
 "C14": ("fault_enumeration", "S", "fault injection: every system position of every generated plan panics once (three points), sibling phase arranged by the scheduler; containment oracles on the history and on the following dispatch", "5.C14"),
}
NA = {
 "C10": "placement / max_threads is a pure function of the registration sequence: no schedule, fault, crash point or environment choice exists for a simulator to vary (DESIGN.md section 6)",
 "C18": "acceptance or rejection of a registration call is a pure function of the registration sequence; no schedule or fault dimension (DESIGN.md section 6)",
}
PENDING = {}
def main():
    props=[json.loads(l)["id"] for l in open("/verif/properties.jsonl")]
    checks=[]
    for p in props:
        if p in CLAIMED:
            lvl,eng,tech,ref=CLAIMED[p]
            checks.append({
              "property_id": p,
              "quick_cmd": f"bin/check {p} quick",
              "thorough_cmd": f"bin/check {p} thorough",
              "evidence_file": f"/verif/evidence/{p}.json",
              "replay_cmd_template": f"bin/check {p} --replay {{path}}",
              "engine": eng,
              "level_claimed": {"category": lvl, "text": LEVEL_TEXT.get(p, DEFAULT_TEXT), "design_ref": "DESIGN.md "+ref},
              "level_note": NOTE.get(p, DEFAULT_NOTE),
              "technique": tech,
            })
    na=[{"property_id":p,"reason":NA[p]} for p in props if p in NA]
    for p in props:
        if p not in CLAIMED and p not in NA:
            na.append({"property_id":p,"reason":PENDING.get(p,"check not built yet in this tree (planned, see DESIGN.md section 5); not claimed until its check runs quietly on the unchanged tree")})
    hooks_commits=subprocess.run(["git","-C","/repo","log","--format=%H","--grep=^verif hook"],capture_output=True,text=True).stdout.split()
    m={
     "version":1,
     "setup_cmd":"bin/check --build",
     "hooks":{"guard":"cargo feature verif-hooks","enable":"the harness builds /repo's sources through a shadow manifest (harness/tmpl/shadow.toml) with feature verif-hooks on; rayon is replaced by sim/simrayon at manifest level (no source edit)","baseline_off_cmd":"cd /repo && cargo test --workspace --no-fail-fast --offline","source_commits":hooks_commits,"add_only":True},
     "engines":[
       {"name":"S","path":"/verif/sim","serves_properties":[p for p in props if p in CLAIMED and CLAIMED[p][1].startswith("S")],"kind_free_text":"deterministic simulation: shred's real code on a simulated thread pool (simrayon) under the detsim scheduler (OS threads + baton, seeded strategies, recorded choice trace, shrinking, exact replay)"},
       {"name":"W","path":"/verif/harness/src","serves_properties":[p for p in props if p in CLAIMED and CLAIMED[p][1].startswith("W")],"kind_free_text":"world / meta-table client simulation (no dispatcher): generated operation histories by 1-4 tasks under detsim against reference models; C06 and C09 are single-task (no schedule dimension) with fault enumeration / injected callback panics"},
     ],
     "checks":checks,
     "not_applicable":na,
     "notes":"Technique family: deterministic simulation with fault injection. VERIF_SEED selects the seed sequence (default 20260926); VERIF_BUDGET_S bounds the search time; exit 2 = harness/build error.",
    }
    json.dump(m,open("/verif/MANIFEST.json","w"),indent=1)
DEFAULT_TEXT="Seeded search over generated registration sequences, schedules and pool sizes; every execution is exactly repeatable from (seed, scenario, choice trace). A clean batch is evidence, not proof; the systematic hold-runs measure the executor's complete may-overlap relation for each generated plan."
DEFAULT_NOTE="Trusted: the detsim scheduler, the stand-in pool's worker-slot model (an over-approximation of rayon's system-level interleavings, DESIGN.md 2.2), the harness systems and oracles. shred's own code, atomic_refcell, ahash, arrayvec and smallvec run for real."
LEVEL_TEXT={}
MIRI_NOTE=" Thorough tier in addition: the same generated plans on plain threads under Miri's seeded scheduler (16 processes, one Miri seed each; stand-in pool in pass-through mode): data-race detector and aliasing model as additional oracles."
NOTE={p: DEFAULT_NOTE+MIRI_NOTE for p in ("C01","C04","C07","C12","C14","C15")}
if __name__=="__main__":
    main()
