#!/usr/bin/env bash
# tools/run_seeded.sh <seeded-id> <PROP> [tier]
# Applies seeded/<id>/patch.diff to a scratch worktree of /repo (never to /repo itself), runs the
# check of <PROP> against it and prints the verdict. The worktree lives in a reusable slot
# (/tmp/rs-slot-$SLOT) so that the harness build for it is incremental; the slot's worktree is
# removed after the run, its build cache by tools/run_all_seeded.sh at the end of a campaign.
set -u
ID="$1"; PROP="$2"; TIER="${3:-quick}"
VERIF=/verif
SLOT="${SLOT:-0}"
WT="/tmp/rs-slot-$SLOT"
OUT="/tmp/rs-out-$ID-$PROP"
exec 9> "/tmp/rs-lock-$SLOT"; flock 9
git -C /repo worktree remove --force "$WT" >/dev/null 2>&1
rm -rf "$WT"; git -C /repo worktree prune
git -C /repo worktree add --detach "$WT" HEAD >/dev/null 2>&1 || exit 2
( cd "$WT" && { git apply "$VERIF/seeded/$ID/patch.diff" 2>/dev/null || git apply --3way "$VERIF/seeded/$ID/patch.diff" 2>/dev/null; } ) || { echo "$ID $PROP: patch does not apply"; git -C /repo worktree remove --force "$WT"; exit 2; }
mkdir -p "$OUT"
VERIF_REPO="$WT" VERIF_OUT="$OUT" VERIF_BUDGET_S="${VERIF_BUDGET_S:-20}" "$VERIF/bin/check" "$PROP" "$TIER" > "$OUT/log" 2>&1
rc=$?
v=$(grep -c '^VIOLATION' "$OUT/log")
echo "$ID $PROP: exit=$rc violations=$v $(grep -m1 'class=' "$OUT/log" | cut -c1-200)"
[ "${KEEP:-0}" = 1 ] || rm -rf "$OUT"
git -C /repo worktree remove --force "$WT"
exit $rc
