#!/usr/bin/env bash
# tools/run_seeded.sh <seeded-id> <PROP> [tier]
# Applies seeded/<id>/patch.diff to a scratch worktree of /repo (never to /repo itself), runs the
# check of <PROP> against it, prints the verdict, removes the worktree and its build output.
set -u
ID="$1"; PROP="$2"; TIER="${3:-quick}"
VERIF=/verif
WT="/tmp/rs-$ID-$PROP"
OUT="/tmp/rs-out-$ID-$PROP"
git -C /repo worktree remove --force "$WT" >/dev/null 2>&1
git -C /repo worktree add --detach "$WT" HEAD >/dev/null 2>&1 || exit 2
( cd "$WT" && { git apply "$VERIF/seeded/$ID/patch.diff" 2>/dev/null || git apply --3way "$VERIF/seeded/$ID/patch.diff" 2>/dev/null; } ) || { echo "$ID $PROP: patch does not apply"; git -C /repo worktree remove --force "$WT"; exit 2; }
mkdir -p "$OUT"
VERIF_REPO="$WT" VERIF_OUT="$OUT" VERIF_BUDGET_S="${VERIF_BUDGET_S:-20}" "$VERIF/bin/check" "$PROP" "$TIER" > "$OUT/log" 2>&1
rc=$?
v=$(grep -c '^VIOLATION' "$OUT/log")
echo "$ID $PROP: exit=$rc violations=$v $(grep -m1 'class=' "$OUT/log" | cut -c1-220)"
[ "${KEEP:-0}" = 1 ] || rm -rf "$OUT"
KEY=$(printf '%s' "$WT" | cksum | cut -d' ' -f1)
rm -rf "$VERIF/build/$KEY"
git -C /repo worktree remove --force "$WT"
exit $rc
