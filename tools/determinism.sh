#!/usr/bin/env bash
# tools/determinism.sh [seeds-per-property] [props...]
# Proves determinism on a sample: every seed is explored twice, in different worker processes
# pinned to different cores (and, the second time, with 15 other workers running next to it),
# and the per-seed chains over the event-log digests of all its executions are diffed.
# Engine S / W must be bit-identical; engine R identical at event level.
cd "$(dirname "$0")/.."
N=${1:-200}; shift || true
PROPS="$*"
[ -z "$PROPS" ] && PROPS=$(python3 -c "import json;print(' '.join(c['property_id'] for c in json.load(open('MANIFEST.json'))['checks']))")
bin/check --build || exit 2
KEY=$(printf '%s' "${VERIF_REPO:-/repo}" | cksum | cut -d' ' -f1)
HSIM="build/$KEY/target-sim/release/hsim"; HREAL="build/$KEY/target-real/release/hreal"
far=$(( $(date +%s%3N) + 3600000 ))
bad=0
for p in $PROPS; do
  a=$(VERIF_DIGESTS=1 $HSIM worker $p quick 777000 1 0 0 $far $N 3 2>/dev/null | grep "^DIGEST")
  # second time: as worker 0 of 16 with stride 1 emulated by running 15 busy neighbours
  for i in $(seq 1 15); do ( $HSIM worker $p quick $((888000+i)) 1 0 0 $far $((N/4+1)) $i >/dev/null 2>&1 & ) ; done
  b=$(VERIF_DIGESTS=1 $HSIM worker $p quick 777000 1 0 0 $far $N 11 2>/dev/null | grep "^DIGEST")
  wait
  if [ "$a" = "$b" ] && [ -n "$a" ]; then echo "DETERMINISM $p engine=S/W seeds=$N identical"; else echo "DETERMINISM $p engine=S/W MISMATCH"; bad=1; diff <(echo "$a") <(echo "$b") | head -5; fi
  case $p in C01|C02|C03|C04|C07|C11|C12|C14)
    M=$((N/10+3))
    a=$(VERIF_DIGESTS=1 $HREAL worker $p quick 777000 1 0 0 $far $M 0 2>/dev/null | grep "^DIGEST")
    b=$(VERIF_DIGESTS=1 $HREAL worker $p quick 777000 1 0 0 $far $M 0 2>/dev/null | grep "^DIGEST")
    if [ "$a" = "$b" ] && [ -n "$a" ]; then echo "DETERMINISM $p engine=R seeds=$M identical (event level)"; else echo "DETERMINISM $p engine=R MISMATCH"; bad=1; diff <(echo "$a") <(echo "$b") | head -5; fi;;
  esac
done
exit $bad
