#!/usr/bin/env bash
# tools/sweep.sh <first-seed> <last-seed> <budget-s> [props...]
# False-alarm hunt: every claimed check with many VERIF_SEED values on the unchanged tree.
# Prints one line per (seed, property) that did not exit 0, and a summary.
cd "$(dirname "$0")/.."
F=${1:-1}; L=${2:-10}; B=${3:-10}; shift 3 || true
PROPS="$*"
[ -z "$PROPS" ] && PROPS=$(python3 -c "import json;print(' '.join(c['property_id'] for c in json.load(open('MANIFEST.json'))['checks']))")
export VERIF_OUT=$(mktemp -d)
bad=0; n=0
for s in $(seq $F $L); do
  for p in $PROPS; do
    out=$(VERIF_SEED=$s VERIF_BUDGET_S=$B bin/check $p quick 2>&1); rc=$?
    n=$((n+1))
    if [ $rc -ne 0 ]; then bad=$((bad+1)); echo "ALARM seed=$s prop=$p rc=$rc"; echo "$out" | grep -E "VIOLATION|class=|HARNESS" | cut -c1-400; mkdir -p /verif/build/sweep-alarms 2>/dev/null; cp -r $VERIF_OUT/replays/. /verif/build/sweep-alarms/ 2>/dev/null; fi
  done
done
echo "SWEEP done: $n runs, $bad alarms (seeds $F..$L, budget ${B}s, props: $PROPS)"
rm -rf "$VERIF_OUT"
