#!/usr/bin/env bash
# tools/run_all_seeded.sh ["<id> <PROP>" ...]    (default: every line of seeded/targets.txt)
# Runs (seeded change, property) pairs, PAR at a time (default 4), one verdict line each;
# removes the slots' build caches afterwards.
cd /verif
PAR=${PAR:-4}
if [ $# -gt 0 ]; then printf '%s\n' "$@"; else grep -v '^#' seeded/targets.txt; fi | awk -v par=$PAR '{print (NR % par) " " $0}' \
  | xargs -P $PAR -L1 sh -c 'SLOT=$0 VERIF_JOBS=${VERIF_JOBS:-4} VERIF_BUDGET_S=${VERIF_BUDGET_S:-15} tools/run_seeded.sh $1 $2 2>&1 | tail -1'
for s in $(seq 0 $((PAR-1))); do
  KEY=$(printf '%s' "/tmp/rs-slot-$s" | cksum | cut -d' ' -f1); rm -rf "/verif/build/$KEY" "/tmp/rs-lock-$s"
done
