#!/usr/bin/env bash
# tools/run_all_seeded.sh "<id> <PROP>" ...   (or reads pairs from seeded/targets.txt)
# Runs the given (seeded change, property) pairs, 4 at a time; prints one verdict line each.
cd /verif
if [ $# -gt 0 ]; then printf '%s\n' "$@"; else cat seeded/targets.txt; fi | grep -v '^#' | xargs -P ${PAR:-4} -L1 sh -c 'VERIF_JOBS=${VERIF_JOBS:-4} VERIF_BUDGET_S=${VERIF_BUDGET_S:-15} tools/run_seeded.sh $0 $1 2>&1 | tail -1'
